#!/venv/bin/python
"""Regenerate seeded/README.md from seeded/*/meta.json"""
import os, json, glob
HERE = os.path.dirname(os.path.dirname(os.path.abspath(__file__)))
rows = []
for m in sorted(glob.glob(os.path.join(HERE, "seeded", "*", "meta.json"))):
    d = json.load(open(m))
    notes = ""
    p = os.path.join(os.path.dirname(m), "agent_notes.md")
    trig = d.get("trigger_summary", "")
    rows.append((d["name"], d["property"], ", ".join(d["checks_that_caught_it"]) or "NONE", ", ".join(d["checks_run"]),
                 d["confirmed"]["demo_exit_with_change"], d["confirmed"]["demo_exit_without_change"], trig))
with open(os.path.join(HERE, "seeded", "README.md"), "w") as f:
    f.write("# Seeded changes (written by independent sub-agents, confirmed by tools/keepseed.sh)\n\n")
    f.write("Each directory holds `patch.diff` (apply with `git -C /repo apply`), `demo.py` (fails with the change, passes without), "
            "`agent_notes.md` (the sub-agent's description of the trigger) and `meta.json` (what was run and which checks caught it). "
            "None of these changes is ever committed to /repo.\n\n")
    f.write("| seeded change | property | caught by (quick tier) | checks run | demo exit with / without |\n|---|---|---|---|---|\n")
    for r in rows:
        f.write("| %s | %s | %s | %s | %s / %s |\n" % (r[0], r[1], r[2], r[3], r[4], r[5]))
    missed = [(os.path.basename(os.path.dirname(m)), json.load(open(m)).get("not_caught_reason")) for m in sorted(glob.glob(os.path.join(HERE, "seeded", "*", "meta.json")))]
    missed = [x for x in missed if x[1]]
    if missed:
        f.write("\n## Not caught, and why\n\n")
        for n, why in missed:
            f.write("* `%s` - %s\n" % (n, why))
print("%d changes, %d caught" % (len(rows), sum(1 for r in rows if r[2] != "NONE")))
