#!/venv/bin/python
"""Regenerate /verif/MANIFEST.json from the check modules that exist."""
import os, sys, json, importlib
HERE = os.path.dirname(os.path.dirname(os.path.abspath(__file__)))
sys.path.insert(0, HERE)
os.environ.setdefault("PYTHONHASHSEED", "0")
sys.dont_write_bytecode = True

NA = {
 "C14": "pure function of one request (client build -> server parse); quantifier is inputs only, no schedule/clock/fault/second party in the statement; its fragmentation aspect is C13's, its robustness aspect C16's. Deterministic simulation has nothing to decide here.",
 "C17": "chunk encode/decode and chunk-size rejection are pure functions of a byte string; quantifier is inputs only. The fragmentation aspect is exercised inside C13/C15 and the no-raise aspect inside C16.",
 "C26": "Base64 integer/code conversions are pure arithmetic functions of their input; nothing to schedule, delay or fail.",
 "C27": "Namer is a sequential in-memory pair of dicts with no time, I/O, concurrency or fault to inject; a history of calls is just an input list (model-based testing, not simulation).",
 "C28": "dataclass (de)serialisation round trip is a pure function of the field values.",
 "C29": "Filer path construction is a function of flags and names; the statement has no schedule or fault in it and checking it means letting rmtree loose on escaped paths; not a simulation target.",
}
ENGINES = {
 "sched": ("hiosim/sched.py", "generated doer forests run by hio's real Doist/DoDoer in virtual time; seeded programs, faults and (for ado) asyncio ready-queue order"),
 "clock": ("hiosim/clockeng.py", "SimClock at doing.time/timing.time: discrete-event wall time with stalls, overshoot and backward steps"),
 "net": ("hiosim/net.py", "in-process fake socket module (stream + TLS over MemoryBIO) with seeded partial I/O, errno faults, delay, FIN/RST; actor stepper"),
 "http": ("hiosim/httpeng.py", "HTTP client/server/parsers on the net engine with scripted or byzantine peers"),
 "gram": ("hiosim/gram.py", "fake datagram transport with loss/dup/reorder/partial accept for Memoer/PeerMemoer"),
 "store": ("hiosim/store.py", "real LMDB in a scratch dir; reopen and fork+os._exit crash points"),
 "box": ("hiosim/box.py", "generated box trees and transition schedules run by the real Boxer"),
}

def main():
    props = [json.loads(l) for l in open(os.path.join(HERE, "properties.jsonl"))]
    checks, na, engines_used = [], [], {}
    for p in props:
        pid = p["id"]
        path = os.path.join(HERE, "hiosim", "checks", pid.lower() + ".py")
        if os.path.exists(path) and pid not in NA:
            src = open(path).read()
            ns = {}
            # read metadata without importing hio: exec only the top-level constant assignments
            import ast
            tree_ = ast.parse(src)
            for node in tree_.body:
                if isinstance(node, ast.Assign) and all(isinstance(t, ast.Name) for t in node.targets):
                    try:
                        ns[node.targets[0].id] = eval(compile(ast.Expression(node.value), path, "eval"), {})
                    except Exception:
                        pass
            eng = ns.get("ENGINE", "sched")
            engines_used.setdefault(eng, []).append(pid)
            checks.append(dict(
                property_id=pid,
                quick_cmd="./check %s --tier quick" % pid,
                thorough_cmd="./check %s --tier thorough" % pid,
                evidence_file="/verif/evidence/%s.json" % pid,
                replay_cmd_template="./check %s --replay {path}" % pid,
                engine=eng,
                level_claimed=dict(category=ns["LEVEL"], text=ns.get("LEVEL_TEXT", ns["RULE"]),
                                   design_ref=ns.get("DESIGN_REF", "DESIGN.md section 4, " + pid)),
                level_note=ns.get("LEVEL_NOTE", "; ".join(ns.get("ASSUMPTIONS", [])) or "seeded sampling, not enumeration"),
                technique=ns.get("TECHNIQUE", "deterministic simulation with fault injection: seeded choice tape over schedules and faults, trace oracles / reference model, shrinking, exact replay"),
            ))
        else:
            na.append(dict(property_id=pid, reason=NA.get(pid, "check not built yet in this round (planned, see DESIGN.md section 4)")))
    man = dict(
        version=1,
        setup_cmd="./check selftest",
        hooks=dict(guard="HIO_VERIF", enable="no source hooks are needed: every seam is an existing module global / constructor parameter (see DESIGN.md 3.1); checks import /repo/src by path",
                   baseline_off_cmd="cd /repo && /venv/bin/python -m pytest -ra -q -p no:cacheprovider --timeout=900 --continue-on-collection-errors",
                   source_commits=[], add_only=True),
        engines=[dict(name=k, path=ENGINES[k][0], serves_properties=v, kind_free_text=ENGINES[k][1]) for k, v in engines_used.items()],
        checks=checks,
        not_applicable=na,
        notes="Technique: deterministic simulation with fault injection only. One integer (VERIF_SEED) decides every schedule, fault and input through a recorded choice tape; violations are minimised and replayed in a fresh interpreter before being reported. known_findings.json lists recorded and fixed defects.",
    )
    json.dump(man, open(os.path.join(HERE, "MANIFEST.json"), "w"), indent=1)
    print("checks:", [c["property_id"] for c in checks])
    print("n/a:", [n["property_id"] for n in na])

main()
