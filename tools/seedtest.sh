#!/bin/bash
# tools/seedtest.sh <patch.diff> <check id> [more ids]: apply a seeded change to /repo, run quick checks, revert
set -u
patch="$1"; shift
cd /repo || exit 3
if ! git diff --quiet; then echo "/repo has uncommitted changes"; exit 3; fi
git apply "$patch" || { echo "patch does not apply"; exit 3; }
cd /verif
export VERIF_EVIDENCE_DIR=/dev/shm/seedtest-evidence
# SEED_TRIAGE=1: yes/no mode of the runner (stop at the first violation, no shrinking, no replay file): the regression over
# all stored changes (tools/seedall.sh) uses it
[ "${SEED_TRIAGE:-0}" = "1" ] && export VERIF_TRIAGE=1
for c in "$@"; do
  out=$(timeout 900 ./check "$c" --tier "${TIER:-quick}" 2>&1); rc=$?
  echo "== $c rc=$rc"
  echo "$out" | grep -E "oracle|VIOLATION|HARNESS" | sed 's/oracle=/oracle /' | cut -c1-400 | head -6
done
git -C /repo checkout -- .
rm -rf /dev/shm/seedtest-evidence 
