#!/bin/bash
# tools/seedtest.sh <patch.diff> <check id> [more ids]: apply a seeded change to /repo, run quick checks, revert
set -u
patch="$1"; shift
cd /repo || exit 3
if ! git diff --quiet; then echo "/repo has uncommitted changes"; exit 3; fi
git apply "$patch" || { echo "patch does not apply"; exit 3; }
cd /verif
export VERIF_EVIDENCE_DIR=/dev/shm/seedtest-evidence
for c in "$@"; do
  out=$(timeout 900 ./check "$c" --tier "${TIER:-quick}" 2>&1); rc=$?
  echo "== $c rc=$rc"
  echo "$out" | grep -E "oracle|VIOLATION|HARNESS" | cut -c1-400 | head -6
done
git -C /repo checkout -- .
rm -rf /dev/shm/seedtest-evidence 
