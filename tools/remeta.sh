#!/bin/bash
# tools/remeta.sh <seeded change name> <check ids...>: re-run the quick tier of the listed checks against a stored change
# (after a check was strengthened) and record the outcome in its meta.json
name="$1"; shift
res=$(cd /verif && tools/seedtest.sh /verif/seeded/$name/patch.diff "$@" 2>&1)
echo "$res" | grep -E "^==|oracle" | cut -c1-200
caught=$(echo "$res" | grep "rc=1" | awk '{print $2}' | tr '\n' ' ')
/venv/bin/python - "$name" "$caught" "$*" <<'PY'
import sys, json
name, caught, checks = sys.argv[1:4]
p = "/verif/seeded/%s/meta.json" % name
m = json.load(open(p))
m["checks_run"] = sorted(set(m.get("checks_run", [])) | set(checks.split()))
m["checks_that_caught_it"] = sorted(set(caught.split()))
m["rerun_note"] = "re-run with tools/remeta.sh after the listed checks were strengthened (see DESIGN.md section 7, round 4)"
json.dump(m, open(p, "w"), indent=1)
print(name, "caught by:", caught)
PY
