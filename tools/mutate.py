#!/venv/bin/python
"""
tools/mutate.py GROUP [--limit N] [--par P] [--scale F] [--only file:line]

Systematic sensitivity measurement: small syntactic changes (one per copy) in the
functions a group of properties is anchored in, each run against the quick tier
of that group's checks in triage mode (VERIF_TRIAGE=1: stop at first violation,
no shrinking, no evidence).  Nothing touches /repo: every mutant is a private
copy of `git archive HEAD src` under /dev/shm, removed after its run.

A mutant is *killed* when any check of the group reports a violation (or a case
timeout), *survived* when all of them exit 0.  Survivors are listed with file,
line, operator and the changed text in mutation/<group>.json for triage: a
survivor is either equivalent / outside every listed property, or a blind spot.
"""
import argparse
import ast
import json
import os
import re
import shutil
import subprocess
import sys
import time
from concurrent.futures import ThreadPoolExecutor

VERIF = os.path.dirname(os.path.dirname(os.path.abspath(__file__)))
REPO = os.environ.get("MUTATE_REPO", "/repo")
WORK = "/dev/shm/mut"

D = "src/hio/base/doing.py"
GROUPS = {
    "sched": dict(
        checks=["C01", "C02", "C06", "C03", "C05", "C04", "C30"],
        targets={D: ["Doist.do", "Doist.ado", "Doist.enter", "Doist.recur", "Doist.exit", "Doist.extend", "Doist.remove",
                     "Doer.do", "Doer.__call__", "DoDoer.do", "DoDoer.enter", "DoDoer.recur", "DoDoer.exit",
                     "DoDoer.extend", "DoDoer.remove", "doify", "doize"]}),
    "clock": dict(
        checks=["C07", "C08"],
        targets={D: ["Doist.do"],
                 "src/hio/help/timing.py": ["Timer.*", "MonoTimer.*"],
                 "src/hio/base/tyming.py": ["Tymer.*", "Tymist.*", "Tymee.*"]}),
    "tcp": dict(
        checks=["C09", "C10", "C11", "C12"],
        targets={"src/hio/core/tcp/clienting.py": ["Client.*", "ClientTls.*"],
                 "src/hio/core/tcp/serving.py": ["Acceptor.*", "Server.*", "ServerTls.*", "Remoter.*", "RemoterTls.*"]}),
    "http": dict(
        checks=["C13", "C15", "C16", "C18", "C19", "C12"],
        targets={"src/hio/core/http/httping.py": ["parseLine", "parseLeader", "parseChunk", "parseBom", "parseStatusLine", "parseRequestLine",
                                                  "EventSource.*", "Parsent.*", "normalizeHostPort", "packHeader", "packChunk"],
                 "src/hio/core/http/clienting.py": ["Respondent.*", "Client.redirect", "Client.serviceRequests", "Client.serviceResponse",
                                                    "Client.service", "Client.transmit", "Client.request", "Requester.rebuild", "Requester.reinit"],
                 "src/hio/core/http/serving.py": ["Requestant.*", "Responder.*", "Server.service*", "Server.closeConnection",
                                                  "Server.buildEnviron", "BareServer.service*", "BareServer.closeConnection"]}),
    "memo": dict(
        checks=["C20", "C21", "C22"],
        targets={"src/hio/core/memo/memoing.py": ["Memoer.rend", "Memoer.pick", "Memoer.wiff", "Memoer.verify", "Memoer.sign", "Memoer.fuse",
                                                  "Memoer._serviceOneReceived", "Memoer._serviceOnceRxGrams", "Memoer.serviceRx*",
                                                  "Memoer.serviceReceive*", "Memoer._serviceOnceTxGrams", "Memoer.serviceTx*",
                                                  "Memoer._serviceOnceTxMemos", "Memoer.memoit", "Memoer.serviceAll*"],
                 "src/hio/core/udp/udping.py": ["Peer.send", "Peer.receive"],
                 "src/hio/core/uxd/uxding.py": ["Peer.send"]}),
    "store": dict(
        checks=["C23", "C24"],
        targets={"src/hio/base/during.py": ["suffix", "unsuffix", "Duror.*Io*", "Duror.putVal", "Duror.setVal", "Duror.getVal", "Duror.delVal",
                                            "Duror.cnt*", "Duror.delTop*", "Duror.getTop*", "SuberBase.*", "Suber.*", "IoSuber.*", "IoSetSuber.*"],
                 "src/hio/base/hier/durqing.py": ["Durq.*"],
                 "src/hio/base/hier/dusqing.py": ["Dusq.*"]}),
    # functions the anchored code depends on (helpers, base classes), against the checks whose properties go through them
    "deps": dict(
        checks=["C03", "C05", "C09", "C12", "C19", "C20", "C22", "C23", "C13"],
        targets={"src/hio/base/tyming.py": ["Tymist.*", "Tymee.*", "Tymer.*"],
                 "src/hio/core/wiring.py": ["WireLog.readRx", "WireLog.readTx", "WireLog.writeRx", "WireLog.writeTx"],
                 "src/hio/core/coring.py": ["normalizeHost"],
                 "src/hio/help/helping.py": ["intToB64", "intToB64b", "b64ToInt", "codeB64ToB2", "codeB2ToB64", "nabSextets", "repack", "just"],
                 "src/hio/core/memo/memoing.py": ["Memoer._encode*", "Memoer._decode*", "Memoer.makeMID", "Memoer.wiff"],
                 "src/hio/base/hier/holding.py": ["Hold.*"],
                 "src/hio/base/during.py": ["DomSuberBase.*", "DomSuber.*", "DomIoSuber.*", "DomIoSetSuber.*", "Subery.*"]}),
    "box": dict(
        checks=["C25"],
        targets={"src/hio/base/hier/boxing.py": ["Boxer.run", "Boxer.exen", "Boxer.end", "Boxer.endial", "Boxer.rendo", "Boxer.endo",
                                                 "Boxer.exdo", "Boxer.rexdo", "Boxer.predo", "Boxer.begin", "Boxer.first*"]}),
}

SWAPS = [
    (r" == ", " != "), (r" != ", " == "), (r" <= ", " < "), (r" < ", " <= "), (r" >= ", " > "), (r" > ", " >= "),
    (r" is not None", " is None"), (r" is None", " is not None"), (r" not in ", " in "),
    (r" and ", " or "), (r" or ", " and "),
    (r"\bTrue\b", "False"), (r"\bFalse\b", "True"),
    (r" \+ 1\b", " + 0"), (r" - 1\b", " - 0"), (r" \+= ", " -= "),
    (r"\bbreak\b", "continue"), (r"\bcontinue\b", "break"),
    (r"\bmin\(", "max("), (r"\bmax\(", "min("),
    (r"\.popleft\(\)", ".pop()"), (r"\.append\(", ".appendleft("),
]


def match_name(qual, pats):
    for p in pats:
        rx = "^" + re.escape(p).replace(r"\*", ".*") + "$"
        if re.match(rx, qual):
            return True
    return False


def functions(tree):
    out = []

    def walk(node, prefix):
        for ch in ast.iter_child_nodes(node):
            if isinstance(ch, (ast.FunctionDef, ast.AsyncFunctionDef)):
                out.append((prefix + ch.name, ch))
                walk(ch, prefix + ch.name + ".")
            elif isinstance(ch, ast.ClassDef):
                walk(ch, prefix + ch.name + ".")
    walk(tree, "")
    return out


def gen_mutants(group):
    muts = []
    for rel, pats in GROUPS[group]["targets"].items():
        src = subprocess.run(["git", "-C", REPO, "show", "HEAD:" + rel], capture_output=True, text=True, check=True).stdout
        lines = src.split("\n")
        tree = ast.parse(src)
        for qual, fn in functions(tree):
            if not match_name(qual, pats):
                continue
            skip = set()
            stmts = []
            for node in ast.walk(fn):
                if isinstance(node, ast.Expr) and isinstance(node.value, ast.Constant) and isinstance(node.value.value, str):
                    skip.update(range(node.lineno, node.end_lineno + 1))
                if isinstance(node, ast.stmt) and node is not fn:
                    stmts.append(node)
            for node in stmts:
                if isinstance(node, (ast.FunctionDef, ast.AsyncFunctionDef, ast.ClassDef)):
                    continue
                ln = node.lineno
                if ln in skip:
                    continue
                text = lines[ln - 1]
                code = text.split("#")[0] if "'" not in text and '"' not in text else text
                stripped = code.strip()
                if not stripped or stripped.startswith(("logger.", "raise ", "assert ", "import ", "from ", "print(", "@")):
                    continue
                single = node.lineno == node.end_lineno
                # operator swaps on the first line of the statement
                for rx, new in SWAPS:
                    for m in re.finditer(rx, code):
                        mutated = code[:m.start()] + new + code[m.end():]
                        if mutated != code:
                            muts.append(dict(file=rel, func=qual, line=ln, op="%s -> %s" % (rx.strip(), new.strip()), old=text, new=mutated))
                # negate conditions
                m = re.match(r"^(\s*)(if|elif|while) (.*):\s*$", code)
                if m and single is not None:
                    muts.append(dict(file=rel, func=qual, line=ln, op="negate condition", old=text,
                                     new="%s%s not (%s):" % (m.group(1), m.group(2), m.group(3))))
                # delete simple single-line statements
                if single and isinstance(node, (ast.Assign, ast.AugAssign, ast.Delete)) or \
                        (single and isinstance(node, ast.Expr) and isinstance(node.value, ast.Call)):
                    indent = re.match(r"^\s*", text).group(0)
                    muts.append(dict(file=rel, func=qual, line=ln, op="delete statement", old=text, new=indent + "pass"))
    # dedup and validate
    seen = set()
    good = []
    cache = {}
    for mu in muts:
        key = (mu["file"], mu["line"], mu["new"])
        if key in seen:
            continue
        seen.add(key)
        if mu["file"] not in cache:
            cache[mu["file"]] = subprocess.run(["git", "-C", REPO, "show", "HEAD:" + mu["file"]], capture_output=True, text=True, check=True).stdout.split("\n")
        ls = list(cache[mu["file"]])
        ls[mu["line"] - 1] = mu["new"]
        try:
            compile("\n".join(ls), mu["file"], "exec")
        except SyntaxError:
            continue
        good.append(mu)
    for i, mu in enumerate(good):
        mu["id"] = i
    return good


def run_mutant(group, mu, base, scale):
    d = os.path.join(WORK, "%s-%d" % (group, mu["id"]))
    shutil.rmtree(d, ignore_errors=True)
    shutil.copytree(base, d)
    p = os.path.join(d, mu["file"])
    ls = open(p).read().split("\n")
    assert ls[mu["line"] - 1] == mu["old"], (mu, ls[mu["line"] - 1])
    ls[mu["line"] - 1] = mu["new"]
    open(p, "w").write("\n".join(ls))
    env = dict(os.environ, VERIF_TRIAGE="1", VERIF_REPO=d, VERIF_EVIDENCE_DIR=os.path.join(WORK, "ev"), PYTHONDONTWRITEBYTECODE="1")
    verdict, by, detail = "survived", None, ""
    t0 = time.time()
    for c in GROUPS[group]["checks"]:
        cases = max(200, int(QUICK[c] * scale))
        try:
            r = subprocess.run([os.path.join(SNAP[0], "check"), c, "--tier", "quick", "--jobs", "1", "--cases", str(cases)],
                               env=env, capture_output=True, text=True, timeout=900)
            out = r.stdout + r.stderr
            rc = r.returncode
        except subprocess.TimeoutExpired:
            out, rc = "TIMEOUT", 1
        if rc == 1:
            verdict, by = "killed", c
            m = re.search(r"TRIAGE-VIOLATION .*", out)
            detail = (m.group(0) if m else out[-200:])[:260]
            break
        if rc != 0:
            # import error / harness error caused by the mutant (e.g. NameError at import): counts as detected, but say how
            verdict, by = "broken", c
            detail = out.strip().split("\n")[-1][:260]
            break
    shutil.rmtree(d, ignore_errors=True)
    return dict(mu, verdict=verdict, by=by, detail=detail, secs=round(time.time() - t0, 1))


QUICK = {}
SNAP = [VERIF]     # the checks run from a private snapshot of /verif, so that editing /verif during a run cannot skew it


def main():
    ap = argparse.ArgumentParser()
    ap.add_argument("group")
    ap.add_argument("--limit", type=int, default=0)
    ap.add_argument("--par", type=int, default=16)
    ap.add_argument("--scale", type=float, default=0.25, help="fraction of each check's quick-tier case count")
    ap.add_argument("--only", default=None, help="file-suffix:line to restrict to")
    ap.add_argument("--list", action="store_true")
    ap.add_argument("--survivors", action="store_true", help="re-run only the survivors (and broken) recorded in mutation/<group>.json")
    a = ap.parse_args()
    for c in GROUPS[a.group]["checks"]:
        src = open(os.path.join(VERIF, "hiosim", "checks", c.lower() + ".py")).read()
        QUICK[c] = int(re.search(r"TIERS = dict\(quick=dict\(cases=(\d+)", src).group(1))
    muts = gen_mutants(a.group)
    if a.only:
        f, l = a.only.rsplit(":", 1)
        muts = [m for m in muts if m["file"].endswith(f) and m["line"] == int(l)]
    if a.survivors:
        prev = json.load(open(os.path.join(VERIF, "mutation", "%s.json" % a.group)))
        keys = set((m["file"], m["line"], m["new"]) for m in prev["survivors"] + prev.get("broken_list", []))
        muts = [m for m in muts if (m["file"], m["line"], m["new"]) in keys]
    if a.limit:
        step = max(1, len(muts) // a.limit)
        muts = muts[::step][:a.limit]
    print("%d mutants in group %s" % (len(muts), a.group), flush=True)
    if a.list:
        for m in muts:
            print(m["id"], m["file"], m["line"], m["func"], m["op"], "|", m["new"].strip())
        return
    os.makedirs(WORK, exist_ok=True)
    base = os.path.join(WORK, "base-%s" % a.group)
    shutil.rmtree(base, ignore_errors=True)
    os.makedirs(base)
    subprocess.run("git -C %s archive HEAD src | tar -x -C %s" % (REPO, base), shell=True, check=True)
    snap = os.path.join(WORK, "verif-%s" % a.group)
    shutil.rmtree(snap, ignore_errors=True)
    os.makedirs(snap)
    shutil.copytree(os.path.join(VERIF, "hiosim"), os.path.join(snap, "hiosim"), ignore=shutil.ignore_patterns("__pycache__"))
    for f in ("check", "known_findings.json"):
        shutil.copy2(os.path.join(VERIF, f), os.path.join(snap, f))
    SNAP[0] = snap
    results = []
    t0 = time.time()
    with ThreadPoolExecutor(a.par) as ex:
        for i, r in enumerate(ex.map(lambda m: run_mutant(a.group, m, base, a.scale), muts)):
            results.append(r)
            if r["verdict"] != "killed":
                print("%-8s %s:%d %s [%s] %s" % (r["verdict"], r["file"].split("/")[-1], r["line"], r["func"], r["op"], r["new"].strip()[:90]), flush=True)
            if (i + 1) % 50 == 0:
                print("... %d/%d done, %d survived, %.0fs" % (i + 1, len(muts), sum(x["verdict"] == "survived" for x in results), time.time() - t0), flush=True)
    shutil.rmtree(base, ignore_errors=True)
    shutil.rmtree(snap, ignore_errors=True)
    shutil.rmtree(os.path.join(WORK, "ev"), ignore_errors=True)
    os.makedirs(os.path.join(VERIF, "mutation"), exist_ok=True)
    summary = dict(group=a.group, checks=GROUPS[a.group]["checks"], scale=a.scale, total=len(results),
                   killed=sum(r["verdict"] == "killed" for r in results), broken=sum(r["verdict"] == "broken" for r in results),
                   survived=sum(r["verdict"] == "survived" for r in results),
                   killed_by={c: sum(r["by"] == c and r["verdict"] == "killed" for r in results) for c in GROUPS[a.group]["checks"]},
                   wall_s=round(time.time() - t0, 1),
                   survivors=[{k: r[k] for k in ("id", "file", "line", "func", "op", "old", "new")} for r in results if r["verdict"] == "survived"],
                   broken_list=[{k: r[k] for k in ("id", "file", "line", "func", "op", "new", "detail")} for r in results if r["verdict"] == "broken"])
    if a.survivors and not a.only and not a.limit:
        # a re-run of the earlier survivors (after checks were strengthened): the mutants killed before stay killed; totals are
        # those of the whole group
        newly = summary["killed"]
        summary["total"] = prev["total"]
        summary["killed"] = prev["killed"] + newly
        summary["killed_by"] = {c: prev.get("killed_by", {}).get(c, 0) + summary["killed_by"].get(c, 0) for c in GROUPS[a.group]["checks"]}
        summary["rerun_of_survivors"] = dict(rerun=len(results), newly_killed=newly, earlier_wall_s=prev.get("wall_s"))
    json.dump(summary, open(os.path.join(VERIF, "mutation", "%s.json" % a.group), "w"), indent=1)
    print("group %s: %d mutants, %d killed, %d broken, %d survived in %.0fs" % (
        a.group, summary["total"], summary["killed"], summary["broken"], summary["survived"], summary["wall_s"]))


if __name__ == "__main__":
    main()
