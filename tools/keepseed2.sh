#!/bin/bash
# tools/keepseed2.sh <seed name> <property> <worktree> <variant dir inside worktree/seeded> "<test paths>" <check ids...>
# like keepseed.sh, for a worktree that is CLEAN and holds several variants seeded/<v>/{patch.diff,demo.py,notes.md}
name="$1"; prop="$2"; wt="$3"; var="$4"; tests="$5"; shift 5
out=/verif/seeded/$name
mkdir -p $out
cd $wt || exit 3
git checkout -q -- src
cp seeded/$var/patch.diff $out/patch.diff || exit 3
cp seeded/$var/demo.py $out/demo.py 2>/dev/null
cp seeded/$var/notes.md $out/agent_notes.md 2>/dev/null
PYTHONPATH=$wt/src timeout 300 /venv/bin/python seeded/$var/demo.py > /tmp/demo_without.txt 2>&1; rc_without=$?
t_without=$(unshare -n sh -c "ip link set lo up; PYTHONPATH=$wt/src timeout 1200 /venv/bin/python -m pytest $tests -q -p no:cacheprovider 2>&1" | tail -1)
git apply $out/patch.diff || { echo "patch does not apply"; exit 3; }
PYTHONPATH=$wt/src timeout 300 /venv/bin/python seeded/$var/demo.py > /tmp/demo_with.txt 2>&1; rc_with=$?
t_with=$(unshare -n sh -c "ip link set lo up; PYTHONPATH=$wt/src timeout 1200 /venv/bin/python -m pytest $tests -q -p no:cacheprovider 2>&1" | tail -1)
git checkout -q -- src
echo "demo rc with change: $rc_with ; without: $rc_without"
echo "tests with: $t_with"
echo "tests without: $t_without"
res=$(cd /verif && tools/seedtest.sh $out/patch.diff "$@" 2>&1)
echo "$res"
caught=$(echo "$res" | grep -B0 "rc=1" | awk '{print $2}' | tr '\n' ' ')
/venv/bin/python - "$name" "$prop" "$rc_with" "$rc_without" "$t_with" "$t_without" "$caught" "$*" "$tests" <<'PY'
import sys, json, os
name, prop, rcw, rcwo, tw, two, caught, checks, tests = sys.argv[1:10]
out = "/verif/seeded/%s" % name
meta = dict(name=name, property=prop,
            needs_to_manifest="see agent_notes.md (written by the sub-agent that produced the change)",
            confirmed=dict(demo_exit_with_change=int(rcw), demo_exit_without_change=int(rcwo),
                           tree_tests=tests, tree_tests_with_change=tw.strip(), tree_tests_without_change=two.strip()),
            checks_run=checks.split(), checks_that_caught_it=caught.split(),
            how_run="tools/keepseed2.sh: demo.py run in the sub-agent's scratch worktree with and without the change (git apply / git checkout); "
                    "the listed tree tests run in a private network namespace with PYTHONPATH=<worktree>/src with and without; then "
                    "tools/seedtest.sh applied patch.diff to /repo, ran the quick tier of the listed checks and reverted /repo")
json.dump(meta, open(out + "/meta.json", "w"), indent=1)
print(json.dumps(meta["confirmed"]), "caught by:", caught)
PY
