#!/venv/bin/python
"""tools/determinism.py [K] [ids...]: for every check, K fixed cases are run in four fresh interpreters
(PYTHONHASHSEED 0 / 777 / 31337, forward and reverse case order) and the per-case digests diffed."""
import os, sys, subprocess, glob, json
HERE = os.path.dirname(os.path.dirname(os.path.abspath(__file__)))
K = int(sys.argv[1]) if len(sys.argv) > 1 and sys.argv[1].isdigit() else 150
ids = [a.upper() for a in sys.argv[2:]] or sorted(os.path.basename(p)[:-3].upper() for p in glob.glob(os.path.join(HERE, "hiosim/checks/c[0-9][0-9].py")))
bad = 0
report = {}
for pid in ids:
    outs = []
    for hs, order, seed in (("0", "fwd", "1"), ("777", "rev", "1"), ("31337", "fwd", "1"), ("5", "rev", "1")):
        env = dict(os.environ, PYTHONHASHSEED=hs, VERIF_SEED=seed)
        p = subprocess.run([os.path.join(HERE, "check"), pid, "--digests", str(K), "--order", order], capture_output=True, text=True, env=env, timeout=3600)
        outs.append([l for l in p.stdout.splitlines() if l.startswith("D ")])
        if p.returncode != 0:
            print(pid, "run failed", p.stderr[-300:])
    same = all(o == outs[0] for o in outs) and len(outs[0]) == K
    diffs = sum(1 for i in range(min(len(o) for o in outs)) if len(set(o[i] for o in outs)) > 1)
    print("%s: %s (%d cases x 4 interpreters, %d differing cases)" % (pid, "deterministic" if same else "NOT DETERMINISTIC", K, diffs))
    report[pid] = dict(cases=K, interpreters=4, hashseeds=[0, 777, 31337, 5], orders=["fwd", "rev"], differing_cases=diffs, ok=same)
    bad += 0 if same else 1
json.dump(report, open(os.path.join(HERE, "evidence", "determinism_sweep.json"), "w"), indent=1)
sys.exit(1 if bad else 0)
