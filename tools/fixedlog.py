#!/venv/bin/python
"""Rewrite the fixed_log of known_findings.json from the fix: commits in /repo (matched by subject)."""
import json, subprocess, os
HERE = os.path.dirname(os.path.dirname(os.path.abspath(__file__)))
TABLE = [
 ("C02", "F1", "reverse enter order when a run stops", "after an exception in the middle of a cycle the remaining doers were force-exited in rotated order (k-1..1, n..k+1) instead of reverse enter order"),
 ("C02", "F2", "already entered by extend", "(also C01) doers entered by extend() before a later new doer's enter raised were never exited by the scheduler (closed by the GC after do() had raised)"),
 ("C07", "F6", "pace real time runs", "Doist(tock=a); doist.tock=b; do(real=True) paced real time with a (timer built at construction)"),
 ("C07", "F7", "MonoTimer.start resynchronizes", "wall clock stepped back between Doist construction (or the last timer reading) and do() -> MonoTimer expired at once for many periods, cycles ran without waiting"),
 ("C10", "F8", "broken pipe (EPIPE)", "EPIPE on send (peer already closed) raised BrokenPipeError out of Client.service() and out of the whole Server.service() loop; EPIPE on recv likewise"),
 ("C10", "F9", "recognize TLS EOF", "SSL EOF on TLS send/recv was compared against the exception class ssl.SSLEOFError and re-raised out of servicing"),
 ("C10", "F10", "TLS client handshake terminated", "SSL EOF / connection errno during the TLS client handshake was re-raised out of Client.service()"),
 ("C11", "F11a", "ServerTls.close also closes", "ServerTls.close() left the sockets of connections still handshaking (.cxes) open"),
 ("C11", "F11b", "replaced by a new one", "a connection replaced by a newer one from the same (host, port) was only shut down / silently overwritten, its socket never closed"),
 ("C12", "F12", "under the parameter name Remoter uses", "tcp servers passed timeout= to Remoter (parameter is tymeout) so every connection had tymeout 0.0 and idle HTTP connections were never closed"),
 ("C12", "F13", "refresh a connection's idle tymer", "refresh() used the lossless restart(): N traffic events pushed the idle deadline N tymeouts past accept, idle connections closed many tymeouts late"),
 ("C12", "F14", "TLS connections refresh their idle tymer", "RemoterTls.send/receive never refreshed the idle tymer: TLS connections with steady traffic were closed as idle"),
 ("C12", "F15", "BareServer iterates over copies", "(also C16) BareServer.serviceConnects/serviceStewards deleted from the dicts they iterate: RuntimeError out of service() when an idle connection timed out or a non persistent request (GET / HTTP/1.0) finished"),
 ("C12", "F14b", "idle tymer starts when its handshake completes", "a TLS connection whose handshake took most of a tymeout was closed as idle right after being established (tymer started at accept, handshake traffic did not count)"),
]
def main():
    log = subprocess.run(["git", "-C", "/repo", "log", "--format=%h %s"], capture_output=True, text=True).stdout.splitlines()
    out = []
    extra = []
    path = os.path.join(HERE, "tools", "fixedlog_extra.json")
    if os.path.exists(path):
        extra = json.load(open(path))
    for pid, fid, sub, what in TABLE + [tuple(e) for e in extra]:
        h = [l.split()[0] for l in log if sub in l]
        if not h:
            print("WARNING no commit for", fid, sub)
            continue
        out.append("fixed: property=%s %s %s: %s" % (pid, h[0], fid, what))
    k = json.load(open(os.path.join(HERE, "known_findings.json")))
    k["fixed_log"] = out
    json.dump(k, open(os.path.join(HERE, "known_findings.json"), "w"), indent=1)
    print("\n".join(out))
main()
