#!/bin/bash
# tools/seedall.sh: run every stored seeded change against the quick tier of its own property's check;
# writes seeded/REGRESSION.json (which were caught, by which oracle) -- the sensitivity regression of the whole suite
cd /verif
export SEED_TRIAGE=${SEED_TRIAGE:-1}   # yes/no mode; SEED_TRIAGE=0 runs the full quick tier with shrinking and replay
out=/dev/shm/seedall.$$; : > $out
for d in seeded/*/; do
  name=$(basename $d)
  [ -f $d/patch.diff ] || continue
  prop=$(/venv/bin/python -c "import json;print(json.load(open('$d/meta.json'))['property'])")
  res=$(tools/seedtest.sh /verif/$d/patch.diff $prop 2>&1)
  rc=$(echo "$res" | grep -o "rc=[0-9]*" | head -1)
  by=$prop
  if [ "$rc" != "rc=1" ]; then
    # filed under this property by its author but (also) breaking a neighbouring one: the checks recorded in meta.json
    for other in $(/venv/bin/python -c "import json;print(' '.join(c for c in json.load(open('$d/meta.json'))['checks_that_caught_it'] if c != '$prop'))"); do
      res=$(tools/seedtest.sh /verif/$d/patch.diff $other 2>&1)
      rc=$(echo "$res" | grep -o "rc=[0-9]*" | head -1)
      by=$other
      [ "$rc" = "rc=1" ] && break
    done
  fi
  oracle=$(echo "$res" | grep -o "oracle [a-z0-9-]*" | head -1)
  echo "$name $by $rc $oracle" | tee -a $out
done
/venv/bin/python - $out <<'PY'
import sys, json
rows = []
for l in open(sys.argv[1]):
    p = l.split()
    if len(p) < 3:
        p.append("rc=?")      # the patch did not apply (stored patch needs rebasing on the current tree)
    rows.append(dict(change=p[0], caught_by_check=p[1], caught=(p[2] == "rc=1"), first_oracle=" ".join(p[4:]) if len(p) > 4 else None))
json.dump(dict(total=len(rows), caught=sum(r["caught"] for r in rows), rows=rows), open("/verif/seeded/REGRESSION.json", "w"), indent=1)
print("caught %d of %d" % (sum(r["caught"] for r in rows), len(rows)))
for r in rows:
    if not r["caught"]:
        print("MISSED", r["change"])
PY
rm -f $out
