#!/venv/bin/python
"""tools/survey.py CNN [ncases] [tier]: run cases in-process and tabulate violations by oracle + message head"""
import os, sys
os.environ.setdefault("PYTHONHASHSEED", "0")
sys.dont_write_bytecode = True
sys.path.insert(0, os.path.dirname(os.path.dirname(os.path.abspath(__file__))))
from collections import Counter
from hiosim import core
pid = sys.argv[1].upper()
n = int(sys.argv[2]) if len(sys.argv) > 2 else 1000
tier = sys.argv[3] if len(sys.argv) > 3 else "quick"
mod = core.load_check(pid)
known, _ = core.load_known(pid)
c = Counter(); ex = {}
for i in range(n):
    tape, res = core.run_one(mod, tier, seed=core.case_seed(1, pid, i))
    v, h = core.classify(res, known)
    for o, m in v[:1]:
        key = (o, m[:110])
        c[key] += 1
        ex.setdefault(key, i)
    for f, m in h:
        c[("KNOWN " + f, "")] += 1
for k, v in c.most_common(40):
    print(v, k[0], "|", k[1], "| case", ex.get(k))
