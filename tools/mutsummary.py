#!/venv/bin/python
"""tools/mutsummary.py: table of the last tools/mutate.py run of every group -> mutation/README.md"""
import json, os, glob
V = os.path.dirname(os.path.dirname(os.path.abspath(__file__)))
rows = []
for f in sorted(glob.glob(os.path.join(V, "mutation", "*.json"))):
    d = json.load(open(f))
    rows.append(d)
out = ["# Systematic mutants: last run of each group (`tools/mutate.py <group>`)", "",
       "See `TRIAGE.md` for what the survivors led to and why the remaining ones stay.  `scale` is the fraction of each check's",
       "quick-tier case count used per mutant (single worker).", "",
       "A group whose row has a *re-run* entry was first run in full and later had its survivors re-run (`--survivors`) after the checks",
       "had been strengthened: killed = killed before + newly killed.  Survivors of the first run that could not be matched any more,",
       "because fixes to hio had moved or changed their source lines in between, were not re-run; they are counted in *not re-run* (an upper",
       "bound on survivors is survived + not re-run).", "",
       "| group | checks | scale | mutants | killed | broken (harness exit 2) | survived | not re-run | re-run (newly killed) | killed by |",
       "|---|---|---|---|---|---|---|---|---|---|"]
tot = [0, 0, 0, 0, 0]
for d in rows:
    kb = ", ".join("%s %d" % (k, v) for k, v in d["killed_by"].items() if v)
    rr = d.get("rerun_of_survivors")
    missing = d["total"] - d["killed"] - d["broken"] - d["survived"]
    out.append("| %s | %s | %s | %d | %d | %d | %d | %d | %s | %s |" % (d["group"], " ".join(d["checks"]), d["scale"], d["total"], d["killed"], d["broken"],
                                                                 d["survived"], missing, "%d (%d)" % (rr["rerun"], rr["newly_killed"]) if rr else "", kb))
    for i, k in enumerate(("total", "killed", "broken", "survived")):
        tot[i] += d[k]
    tot[4] += missing
out.append("| all | | | %d | %d | %d | %d | %d | | |" % tuple(tot))
open(os.path.join(V, "mutation", "README.md"), "w").write("\n".join(out) + "\n")
print("\n".join(out))
