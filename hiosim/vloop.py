"""
Virtual-time asyncio event loop for Doist.ado().

No selector, no real sleeping: when nothing is ready the clock jumps to the
next timer.  The order in which handles of one ready batch run can be permuted
by a seeded chooser (independent tasks must not depend on it).
"""
from .core import CaseTimeout as _CaseTimeout
import asyncio
import heapq


class VLoop(asyncio.BaseEventLoop):
    def __init__(self, chooser=None):
        super().__init__()
        self._vtime = 0.0
        self._chooser = chooser      # callable(n) -> int in [0, n)
        self.iterations = 0
        self.jumps = 0
        self.permuted = 0
        self.multi = 0
        self._clock_resolution = 1e-9

    # -- seams
    def time(self):
        return self._vtime

    def _process_events(self, event_list):
        pass

    def _write_to_self(self):
        pass

    def _run_once(self):
        self.iterations += 1
        sched = self._scheduled
        while sched and sched[0]._cancelled:
            h = heapq.heappop(sched)
            h._scheduled = False
        if not self._ready and sched:
            when = sched[0]._when
            if when > self._vtime:
                self._vtime = when
                self.jumps += 1
        end = self._vtime + self._clock_resolution
        while sched and sched[0]._when < end:
            h = heapq.heappop(sched)
            h._scheduled = False
            if not h._cancelled:
                self._ready.append(h)
        n = len(self._ready)
        batch = [self._ready.popleft() for _ in range(n)]
        if n > 1:
            self.multi += 1
        if self._chooser is not None and n > 1:
            out = []
            while batch:
                i = self._chooser(len(batch))
                if i:
                    self.permuted += 1
                out.append(batch.pop(i))
            batch = out
        for h in batch:
            if h._cancelled:
                continue
            h._run()
        h = None

    # -- driver
    def run_with_noise(self, coro, noise):
        """noise: list of lists of delays; each inner list is one task sleeping those delays in turn"""
        async def noisy(delays):
            for d in delays:
                await asyncio.sleep(d)

        async def main():
            tasks = [self.create_task(noisy(d), name="noise%d" % i) for i, d in enumerate(noise)]
            try:
                return await coro
            finally:
                for t in tasks:
                    t.cancel()
                for t in tasks:
                    try:
                        await t
                    except _CaseTimeout:
                        raise
                    except BaseException:
                        pass
        asyncio.set_event_loop(self)
        try:
            t = self.create_task(main(), name="main")
            return self.run_until_complete(t)
        finally:
            asyncio.set_event_loop(None)
