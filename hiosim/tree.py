"""
Import the hio source tree under test (never the site-packages copy) and give
access to the seams hio already has.

The tree is $VERIF_REPO/src (default /repo/src).  /venv also has hio 0.6.10
installed in site-packages, so the loader asserts where every hio module came
from.
"""
import os
import sys
import warnings
import logging

REPO = os.environ.get("VERIF_REPO", "/repo")
SRC = os.path.join(REPO, "src")

_loaded = False


def load():
    """Put the tree first on sys.path, import hio from it, quieten logging."""
    global _loaded
    if _loaded:
        return
    sys.dont_write_bytecode = True
    if "hio" in sys.modules:
        f = getattr(sys.modules["hio"], "__file__", "") or ""
        if not os.path.realpath(f).startswith(os.path.realpath(SRC) + os.sep):
            raise RuntimeError("hio already imported from %r, not the tree %r" % (f, SRC))
    if not sys.path or sys.path[0] != SRC:
        sys.path.insert(0, SRC)
    warnings.filterwarnings("ignore", category=SyntaxWarning)
    warnings.filterwarnings("ignore", category=DeprecationWarning)
    import hio  # noqa
    f = os.path.realpath(hio.__file__)
    if not f.startswith(os.path.realpath(SRC) + os.sep):
        raise RuntimeError("imported hio from %r, expected tree %r" % (f, SRC))
    # hio logs through help.ogler; keep it silent (never part of any digest)
    try:
        from hio import help as _help
        _help.ogler.level = logging.CRITICAL + 10
        _help.ogler.resetLevel(level=logging.CRITICAL + 10, globally=True)
    except Exception:
        pass
    logging.disable(logging.CRITICAL)
    _loaded = True


def assert_tree_module(mod):
    f = os.path.realpath(getattr(mod, "__file__", "") or "")
    if not f.startswith(os.path.realpath(SRC) + os.sep):
        raise RuntimeError("module %s loaded from %r, not the tree" % (mod.__name__, f))
    return mod


def tree_version():
    load()
    import hio
    return hio.__version__


def git_head():
    import subprocess
    try:
        out = subprocess.run(["git", "-C", REPO, "rev-parse", "--short", "HEAD"],
                             capture_output=True, text=True, timeout=10).stdout.strip()
        dirty = subprocess.run(["git", "-C", REPO, "status", "--porcelain", "--untracked-files=no"],
                               capture_output=True, text=True, timeout=10).stdout.strip()
        return out + ("+dirty" if dirty else "")
    except Exception:
        return "unknown"
