"""
Engine `gram`: fake datagram kernel for hio.core.udp.udping and
hio.core.uxd.uxding (module global `socket` of each) and a seeded uuid for hio.core.memo.memoing (module global `uuid`).

Datagram semantics: sendto() hands the kernel a whole datagram or raises
EAGAIN / ENOBUFS / an "unreachable" errno; because the property under test
(C21) speaks of transports that "accept only part of a gram", sendto() can also
be told to accept a prefix.  Accepted bytes are recorded per call.  Delivery to
the destination socket is decided by the check (order, duplication, loss,
mutation), never by arrival order.
"""
import errno
import os
import socket as _rs
import hashlib

from . import tree
tree.load()
from hio.core.udp import udping          # noqa: E402
from hio.core.uxd import uxding          # noqa: E402
from hio.core.memo import memoing        # noqa: E402

tree.assert_tree_module(udping)
tree.assert_tree_module(uxding)
tree.assert_tree_module(memoing)

UNREACHABLE = [errno.ECONNREFUSED, errno.ECONNRESET, errno.ENETRESET, errno.ENETUNREACH, errno.EHOSTUNREACH,
               errno.ENETDOWN, errno.EHOSTDOWN, errno.ETIMEDOUT]
UNREACHABLE_UXD = [errno.ECONNREFUSED, errno.ENOENT]     # destination socket file has no listener / does not exist
WOULD_BLOCK = [errno.EAGAIN, errno.ENOBUFS]
WOULD_BLOCK_UXD = [errno.EAGAIN, errno.ENOBUFS, errno.ENOMEM]


def key(addr):
    """hashable form of a datagram address: (host, port) for UDP, the path for a unix-domain socket"""
    return addr if isinstance(addr, str) else tuple(addr)


class FakeDgram:
    def __init__(self, net, family=None, type=None, proto=0):
        self.net = net
        self.sid = len(net.sockets)
        net.sockets.append(self)
        self.addr = None
        self.inbox = []        # [(data, src)]
        self.closed = False
        self.opts = {}

    def setsockopt(self, *a):
        self.opts[a[:2]] = a[2]

    def getsockopt(self, *a):
        return self.opts.get(a[:2], 1 << 22)

    def setblocking(self, f):
        pass

    def bind(self, addr):
        if isinstance(addr, str):     # AF_UNIX: a path (the file itself is not created; Filer tolerates that)
            self.addr = addr
            self.net.bound[addr] = self
            return
        host, port = addr
        self.addr = (host or "0.0.0.0", port)
        self.net.bound[self.addr[1]] = self

    def getsockname(self):
        return self.addr

    def close(self):
        self.closed = True
        k = self.addr if isinstance(self.addr, str) else (self.addr[1] if self.addr else None)
        if k is not None and self.net.bound.get(k) is self:
            del self.net.bound[k]

    def sendto(self, data, dst):
        if self.closed:
            raise OSError(errno.EBADF, "Bad file descriptor")
        return self.net.sendto(self, bytes(data), dst)

    def recvfrom(self, bs):
        if self.closed:
            raise OSError(errno.EBADF, "Bad file descriptor")
        if not self.inbox:
            raise BlockingIOError(errno.EAGAIN, "Resource temporarily unavailable")
        data, src = self.inbox.pop(0)
        return data[:bs], src


class DgramNet:
    def __init__(self, tape, res=None):
        self.tape = tape
        self.res = res
        self.sockets = []
        self.bound = {}
        self.sent = []        # log: (src_port, dst, 'ok', bytes_accepted) | (src_port, dst, 'eagain'|errno_name, data_offered)
        self.wire = []        # datagrams accepted completely or in part, for delivery by the check: (src, dst, bytes)
        self.send_policy = None   # callable(sock, data, dst) -> int accepted | raises

    def count(self, name):
        if self.res is not None:
            self.res.faults[name] += 1

    def sendto(self, sock, data, dst):
        if self.send_policy is not None:
            r = self.send_policy(sock, data, dst)
        else:
            r = len(data)
        self.sent.append((sock.addr if isinstance(sock.addr, str) else sock.addr[1], key(dst), "ok", data[:r]))
        if r:
            self.wire.append((sock.addr, key(dst), data[:r]))
        return r

    def deliver(self, dst_port, data, src):
        s = self.bound.get(dst_port)
        if s is not None and not s.closed:
            s.inbox.append((bytes(data), src))


class SockModule:
    def __init__(self, net):
        self._net = net

    def socket(self, family=None, type=None, proto=0, fileno=None):
        return FakeDgram(self._net, family, type, proto)

    def __getattr__(self, name):
        return getattr(_rs, name)


class FakeUUIDModule:
    """memoing.uuid replacement: uuid1().bytes from a seeded counter"""

    def __init__(self, seed):
        self.seed = seed
        self.n = 0

    def uuid1(self):
        self.n += 1
        h = hashlib.blake2b(b"%d/%d" % (self.seed, self.n), digest_size=16).digest()

        class U:
            bytes = h
        return U


class installed:
    def __init__(self, net, uuid_seed=1):
        self.net = net
        self.uuid = FakeUUIDModule(uuid_seed)

    def __enter__(self):
        self.saved = (udping.socket, uxding.socket, memoing.uuid)
        udping.socket = uxding.socket = SockModule(self.net)
        memoing.uuid = self.uuid
        return self.net

    def __exit__(self, *a):
        udping.socket, uxding.socket, memoing.uuid = self.saved
        return False


def make_identity(seed_bytes, code="B"):
    """(vid, Keyage) from a 32-byte seed"""
    import pysodium
    sigseed = hashlib.blake2b(seed_bytes, digest_size=32).digest()
    verkey, sigkey = pysodium.crypto_sign_seed_keypair(sigseed)
    vid = memoing.Memoer._encodeVID(raw=verkey, code=code)
    qvk = memoing.Memoer._encodeQVK(raw=verkey)
    qss = memoing.Memoer._encodeQSS(raw=sigseed)
    return vid, memoing.Keyage(qvk=qvk, qss=qss)
