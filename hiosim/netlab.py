"""
Shared set-up for the net engine: real hio TCP/TLS endpoints on a SimNet.
"""
from . import tree
tree.load()
from hio.core.tcp import clienting, serving   # noqa: E402
from hio.core import wiring                   # noqa: E402
from . import net as netmod, tls as tlsmod    # noqa: E402

tree.assert_tree_module(clienting)
tree.assert_tree_module(serving)


class Lab:
    """one simulated host pair: a server and some clients on one SimNet"""

    def __init__(self, tape, res, tls=False, bs=8096, capacity=1 << 16, rates=None, tymth=None, wirelog=True,
                 server_port=56001, ports=(50001, 50002), server_kwa=None):
        self.tape = tape
        self.res = res
        self.tls = tls
        self.bs = bs
        self.net = netmod.SimNet(tape, capacity=capacity, rates=rates, res=res, ports=ports)
        self.net.tls_sockets = []
        self.tymth = tymth if tymth is not None else (lambda: 0.0)
        self.wirelog = wirelog
        self.port = server_port
        self.server = None
        self.clients = []
        self.swl = None
        self.cwls = []
        self.server_kwa = server_kwa or {}
        self._ctx = netmod.net_installed(self.net)

    def __enter__(self):
        self._ctx.__enter__()
        # record every Remoter / RemoterTls the server creates (wrap __init__; restored on exit)
        lab = self
        self.remoters = []
        self._orig_init = serving.Remoter.__init__
        orig = self._orig_init

        def recording_init(s, *pa, **kwa):
            lab.remoters.append(s)
            orig(s, *pa, **kwa)
        serving.Remoter.__init__ = recording_init
        return self

    def __exit__(self, *a):
        serving.Remoter.__init__ = self._orig_init
        return self._ctx.__exit__(*a)

    def make_server(self, open_=True):
        n = self.net
        n.current_owner = "server"
        self.swl = wiring.WireLog(fmt=b"%(data)b", reopen=True) if self.wirelog else None
        if self.tls:
            self.server = serving.ServerTls(context=tlsmod.SimSSLContext(n, True), host="", port=self.port, bs=self.bs,
                                            wl=self.swl, tymth=self.tymth, **self.server_kwa)
        else:
            self.server = serving.Server(host="", port=self.port, bs=self.bs, wl=self.swl, tymth=self.tymth,
                                         **self.server_kwa)
        if open_:
            ok = self.server.reopen()
            assert ok, "server did not open"
        n.current_owner = None
        return self.server

    def make_client(self, **kwa):
        n = self.net
        i = len(self.clients)
        n.current_owner = "client%d" % i
        wl = wiring.WireLog(fmt=b"%(data)b", reopen=True) if self.wirelog else None
        if self.tls:
            c = clienting.ClientTls(context=tlsmod.SimSSLContext(n, False), host="127.0.0.1", port=self.port,
                                    bs=self.bs, wl=wl, tymth=self.tymth, certedhost="localhost", **kwa)
        else:
            c = clienting.Client(host="127.0.0.1", port=self.port, bs=self.bs, wl=wl, tymth=self.tymth, **kwa)
        c.reopen()
        n.current_owner = None
        self.clients.append(c)
        self.cwls.append(wl)
        return c

    # every call into hio that may create sockets is made under the right owner tag
    def as_owner(self, owner, fn, *a, **k):
        n = self.net
        prev = n.current_owner
        n.current_owner = owner
        try:
            return fn(*a, **k)
        finally:
            n.current_owner = prev

    def svc_client(self, i):
        return self.as_owner("client%d" % i, self.clients[i].service)

    def svc_server(self):
        return self.as_owner("server", self.server.service)

    def remoter_for(self, i):
        c = self.clients[i]
        ca = c.ca
        if ca == (None, None) or self.server is None:
            return None
        return self.server.ixes.get(ca)
