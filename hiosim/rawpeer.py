"""
Scripted raw peers on the fake kernel: a client that sends given byte
fragments at given steps and records what comes back, and a listener-side
server peer that answers with scripted bytes.  They use the fake sockets
directly (optionally through SimSSLSocket), never hio code.
"""
import errno
import ssl
from . import net as netmod, tls as tlsmod


class RawClient:
    def __init__(self, net, port, owner, tls=False):
        self.net = net
        self.port = port
        self.owner = owner
        self.tls = tls
        self.sock = None
        self.ssl = None
        self.connected = False
        self.ready = False
        self.closed_seen = False
        self.reset_seen = False
        self.rx = bytearray()
        self.pending = bytearray()
        self.sent = 0

    @property
    def io(self):
        return self.ssl if self.tls else self.sock

    def queue(self, data):
        self.pending.extend(data)

    def step(self):
        """one service round: connect / handshake / send pending / drain"""
        net = self.net
        if self.closed_seen:
            return
        if self.sock is None:
            prev = net.current_owner
            net.current_owner = self.owner
            self.sock = netmod.FakeSocket(net)
            net.current_owner = prev
        if not self.connected:
            r = self.sock.connect_ex(("127.0.0.1", self.port))
            if r in (0, errno.EISCONN):
                self.connected = True
                if self.tls:
                    self.ssl = tlsmod.SimSSLContext(net, False).wrap_socket(self.sock, server_hostname="localhost")
            else:
                return
        if self.tls and not self.ready:
            try:
                self.ssl.do_handshake()
                self.ready = True
            except (ssl.SSLWantReadError, ssl.SSLWantWriteError):
                return
            except OSError:
                self.closed_seen = True
                return
        self.ready = True
        try:
            if self.pending:
                n = self.io.send(bytes(self.pending))
                del self.pending[:n]
                self.sent += n
        except (BlockingIOError, ssl.SSLWantReadError, ssl.SSLWantWriteError):
            pass
        except OSError:
            self.closed_seen = True
            self.reset_seen = True
            return
        self.drain()

    def drain(self):
        try:
            while True:
                d = self.io.recv(65536)
                if d == b"":
                    self.closed_seen = True
                    break
                self.rx.extend(d)
        except (BlockingIOError, ssl.SSLWantReadError, ssl.SSLWantWriteError):
            pass
        except OSError:
            self.closed_seen = True
            self.reset_seen = True

    def fin(self):
        if self.sock is not None and self.sock.state == "connected":
            try:
                self.sock.shutdown(netmod._rs.SHUT_WR)
            except OSError:
                pass

    def close(self):
        if self.sock is not None:
            self.sock.close()
            self.closed_seen = True

    def rst(self):
        if self.sock is not None and self.sock.state == "connected":
            self.net.rst(self.sock.peer)
            self.sock.state = "closed"
            self.closed_seen = True


class RawServer:
    """listener-side scripted peer: accepts connections; per connection collects request bytes and
    sends whatever the behaviour callback queues.  With tls=True every accepted connection runs a real
    OpenSSL server handshake over the fake socket first."""

    def __init__(self, net, port, owner="rawserver", tls=False):
        self.net = net
        self.port = port
        self.owner = owner
        self.tls = tls
        prev = net.current_owner
        net.current_owner = owner
        self.lsock = netmod.FakeSocket(net)
        self.lsock.bind(("", port))
        self.lsock.listen()
        net.current_owner = prev
        self.conns = []     # dicts: sock, io, rx, out (pending bytes), closed
        self.accepted = 0

    def step(self, behave):
        """behave(conn) may append to conn['out'], set conn['fin'] / conn['rst']"""
        while True:
            try:
                s, _a = self.lsock.accept()
            except BlockingIOError:
                break
            except OSError:
                break
            self.accepted += 1
            io = s
            if self.tls:
                io = tlsmod.SimSSLContext(self.net, True).wrap_socket(s, server_side=True)
            self.conns.append(dict(sock=s, io=io, ready=not self.tls, rx=bytearray(), out=bytearray(), closed=False, fin=False,
                                   rst=False, idx=len(self.conns), state={}, server=self))
        for c in self.conns:
            if c["closed"]:
                continue
            s = c["sock"]
            io = c["io"]
            if not c["ready"]:
                try:
                    io.do_handshake()
                    c["ready"] = True
                except (ssl.SSLWantReadError, ssl.SSLWantWriteError):
                    continue
                except OSError:
                    c["closed"] = True
                    continue
            try:
                while True:
                    d = io.recv(65536)
                    if d == b"":
                        c["peer_eof"] = True
                        break
                    c["rx"].extend(d)
            except (BlockingIOError, ssl.SSLWantReadError, ssl.SSLWantWriteError):
                pass
            except OSError:
                c["closed"] = True
                continue
            behave(c)
            try:
                if c["out"]:
                    n = io.send(bytes(c["out"]))
                    del c["out"][:n]
            except (BlockingIOError, ssl.SSLWantReadError, ssl.SSLWantWriteError):
                pass
            except OSError:
                c["closed"] = True
                continue
            if not c["out"]:
                if c["rst"]:
                    self.net.rst(s.peer)
                    s.state = "closed"
                    c["closed"] = True
                elif c["fin"]:
                    io.close()
                    c["closed"] = True
