"""
Independent, strict reference parser for HTTP/1.x *responses* on a byte stream
(used as the oracle for what a client would see).  Written from RFC 7230, not
from hio.  Framing rules: 1xx/204/304 have no body; Transfer-Encoding: chunked
wins over Content-Length; Content-Length delimits; otherwise the body runs to
the end of the connection.
"""


class NeedMore(Exception):
    pass


class Malformed(Exception):
    pass


def _line(buf, pos):
    i = buf.find(b"\r\n", pos)
    if i < 0:
        raise NeedMore()
    return buf[pos:i], i + 2


def parse_one(buf, pos=0, eof=False, head_method=False):
    """returns (response dict, newpos). Raises NeedMore if incomplete (and not eof), Malformed if broken."""
    start = pos
    line, pos = _line(buf, pos)
    parts = bytes(line).split(b" ", 2)
    if len(parts) < 2 or not parts[0].startswith(b"HTTP/1."):
        raise Malformed("status line %r" % bytes(line[:60]))
    try:
        status = int(parts[1])
    except ValueError:
        raise Malformed("status %r" % parts[1])
    reason = parts[2] if len(parts) > 2 else b""
    headers = []
    while True:
        line, pos = _line(buf, pos)
        if not line:
            break
        if b":" not in line:
            raise Malformed("header line %r" % bytes(line[:60]))
        k, v = bytes(line).split(b":", 1)
        headers.append((k.decode("latin1").lower(), v.strip().decode("latin1")))
    hd = {}
    for k, v in headers:
        hd.setdefault(k, []).append(v)
    framing = None
    body = b""
    te = ",".join(hd.get("transfer-encoding", [])).lower()
    if 100 <= status < 200 or status in (204, 304) or head_method:
        if "chunked" in te:
            # lenient: honour chunked coding on 204/304 (zero-length chunked body)
            body, pos, trailers = _chunked(buf, pos)
            framing = "chunked"
        else:
            framing = "none"
    elif "chunked" in te:
        body, pos, trailers = _chunked(buf, pos)
        framing = "chunked"
    elif "content-length" in hd:
        try:
            n = int(hd["content-length"][0])
        except ValueError:
            raise Malformed("content-length %r" % hd["content-length"][0])
        if n < 0:
            raise Malformed("negative content-length")
        if len(buf) - pos < n:
            raise NeedMore()
        body = bytes(buf[pos:pos + n])
        pos += n
        framing = "length"
    else:
        if not eof:
            raise NeedMore()
        body = bytes(buf[pos:])
        pos = len(buf)
        framing = "close"
    return dict(status=status, reason=reason.decode("latin1"), headers=headers, body=body, framing=framing,
                version=parts[0].decode()), pos


def _chunked(buf, pos):
    body = bytearray()
    while True:
        line, pos = _line(buf, pos)
        size_s = bytes(line).split(b";", 1)[0].strip()
        if not size_s or any(c not in b"0123456789abcdefABCDEF" for c in size_s):
            raise Malformed("chunk size %r" % size_s)
        n = int(size_s, 16)
        if n == 0:
            trailers = []
            while True:
                line, pos = _line(buf, pos)
                if not line:
                    break
                trailers.append(bytes(line))
            return bytes(body), pos, trailers
        if len(buf) - pos < n + 2:
            raise NeedMore()
        body += buf[pos:pos + n]
        pos += n
        if buf[pos:pos + 2] != b"\r\n":
            raise Malformed("chunk not terminated by CRLF")
        pos += 2


def parse_all(buf, eof):
    """parse as many responses as the stream holds. returns (responses, leftover_pos, error)"""
    out = []
    pos = 0
    while pos < len(buf):
        try:
            r, pos2 = parse_one(buf, pos, eof=eof)
        except NeedMore:
            if eof:
                return out, pos, "truncated"
            return out, pos, None
        except Malformed as ex:
            return out, pos, "malformed: %s" % ex
        out.append(r)
        pos = pos2
    return out, pos, None
