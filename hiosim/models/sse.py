"""
Reference dispatch of a server-sent event stream (WHATWG HTML "event stream
interpretation"), written from the specification over the *logical* line list.
Differences from the spec that the property does not speak about are
normalised by the caller (absent id -> '', absent event name -> '').
"""


def dispatch(lines):
    """lines: list of str (without terminators). Returns (events, last_event_id, retry)."""
    events = []
    last_id = ""
    retry = None
    data = []
    have_data = False
    etype = ""
    for line in lines:
        if line == "":
            if have_data:
                events.append(dict(id=last_id, name=etype, data="\n".join(data)))
            data = []
            have_data = False
            etype = ""
            continue
        if line.startswith(":"):
            continue
        if ":" in line:
            field, _, value = line.partition(":")
            if value.startswith(" "):
                value = value[1:]
        else:
            field, value = line, ""
        if field == "event":
            etype = value
        elif field == "data":
            data.append(value)
            have_data = True
        elif field == "id":
            if "\x00" not in value:
                last_id = value
        elif field == "retry":
            if value and all(c in "0123456789" for c in value):
                retry = int(value)
    return events, last_id, retry
