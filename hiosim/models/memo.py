"""
Reference model of memo reassembly from delivered grams (from the statement of
C20): a memo is delivered exactly once, at the first service point at which
every one of its grams has been delivered at least once; never before; never
again.  Two quirk switches reproduce recorded findings:

  drop_signed_before_zeroth (F23): a signed non-zeroth gram that arrives before
      its zeroth gram cannot be verified (the signer id travels in the zeroth
      gram) and is dropped for good.
  refuse_after_fuse (F30): once a memo is fused its bookkeeping is forgotten,
      so grams of that memo arriving later start a new reassembly.
"""


def simulate(deliveries, memos, drop_signed_before_zeroth=False, refuse_after_fuse=False):
    """deliveries: list of ('gram', memo_id, gram_no) and ('service',) in order.
    memos: {memo_id: dict(count=n, signed=bool)}.
    Returns list of memo_ids in delivery order (with repeats if re-fused)."""
    have = {}
    zero_seen = {}
    done = set()
    out = []
    for d in deliveries:
        if d[0] == "gram":
            _k, mid, gn = d
            if mid in done and not refuse_after_fuse:
                continue
            m = memos[mid]
            if drop_signed_before_zeroth and m["signed"] and gn != 0 and not zero_seen.get(mid):
                continue
            if gn == 0:
                zero_seen[mid] = True
            have.setdefault(mid, set()).add(gn)
        else:
            for mid in list(have):
                if zero_seen.get(mid) and len(have[mid]) >= memos[mid]["count"]:
                    out.append(mid)
                    done.add(mid)
                    del have[mid]
                    zero_seen.pop(mid, None)
    return out
