"""
Emulation of hio's hidden-suffix scheme for insertion-ordered values (key +
'.' + 32 hex digits of an ordinal, entries found by scanning forward from
ordinal 0 while the part before the last '.' equals the key).  It is used ONLY
to decide whether a deviation from the dictionary model is exactly recorded
finding F27 (entries of two keys interleave in storage order when one key is
another key + '.' + something that sorts among 32-digit hex ordinals).
"""
import bisect

MAXSUF = int("f" * 32, 16)


def suffix(key, ion):
    return key + b"." + (b"%032x" % ion)


def unsuffix(iokey):
    k, ion = iokey.rsplit(b".", 1)
    return k, int(ion, 16)


class Emu:
    def __init__(self):
        self.keys = []      # sorted iokeys
        self.vals = {}

    def _from(self, start):
        i = bisect.bisect_left(self.keys, start)
        return i

    def _put(self, iokey, val, overwrite=True):
        if iokey in self.vals:
            if not overwrite:
                return False
            self.vals[iokey] = val
            return True
        bisect.insort(self.keys, iokey)
        self.vals[iokey] = val
        return True

    def _del(self, iokey):
        self.keys.remove(iokey)
        del self.vals[iokey]

    def scan(self, key, ion=0):
        out = []
        i = self._from(suffix(key, ion))
        while i < len(self.keys):
            ck, cion = unsuffix(self.keys[i])
            if ck != key:
                break
            out.append((self.keys[i], cion))
            i += 1
        return out

    def get(self, key):
        return [self.vals[k] for k, _ in self.scan(key)]

    def first(self, key):
        i = self._from(suffix(key, 0))
        if i < len(self.keys):
            ck, _ = unsuffix(self.keys[i])
            if ck == key:
                return self.vals[self.keys[i]]
        return None

    def last(self, key):
        ion = None
        i = self._from(suffix(key, MAXSUF))
        if i >= len(self.keys):
            if self.keys:
                ck, cion = unsuffix(self.keys[-1])
                if ck == key:
                    ion = cion
        else:
            ck, cion = unsuffix(self.keys[i])
            if ck == key:
                ion = cion
            elif i > 0:
                ck, cion = unsuffix(self.keys[i - 1])
                if ck == key:
                    ion = cion
        if ion is not None:
            return self.vals.get(suffix(key, ion))
        return None

    def pop(self, key):
        i = self._from(suffix(key, 0))
        if i < len(self.keys):
            ck, _ = unsuffix(self.keys[i])
            if ck == key:
                k = self.keys[i]
                v = self.vals[k]
                self._del(k)
                return v
        return None

    def rem(self, key):
        r = False
        for k, _ in self.scan(key):
            self._del(k)
            r = True
        return r

    def add(self, key, val):
        ion = 0
        for _k, cion in self.scan(key):
            ion = cion + 1
        return self._put(suffix(key, ion), val, True)

    def put(self, key, vals):
        ion = 0
        for _k, cion in self.scan(key):
            ion = cion + 1
        r = False
        for i, v in enumerate(vals):
            r = self._put(suffix(key, ion + i), v, True)
        return r

    def pin(self, key, vals):
        self.rem(key)
        r = False
        for i, v in enumerate(vals):
            r = self._put(suffix(key, i), v, True)
        return r

    # --- set variants
    def sadd(self, key, val):
        ion = 0
        have = []
        for k, cion in self.scan(key):
            have.append(self.vals[k])
            ion = cion + 1
        if val in have:
            return False
        return self._put(suffix(key, ion), val, False)

    def sput(self, key, vals):
        vals = list(dict.fromkeys(vals))
        ion = 0
        have = []
        for k, cion in self.scan(key):
            have.append(self.vals[k])
            ion = cion + 1
        vals = [v for v in vals if v not in have]
        r = False
        for i, v in enumerate(vals):
            r = self._put(suffix(key, ion + i), v, False) or r
        return r

    def spin(self, key, vals):
        self.rem(key)
        vals = list(dict.fromkeys(vals))
        r = False
        for i, v in enumerate(vals):
            r = self._put(suffix(key, i), v, True) or r
        return r

    def srem(self, key, val):
        for k, _ in self.scan(key):
            if self.vals[k] == val:
                self._del(k)
                return True
        return False
