"""
Reference model of hio's documented virtual-time cycle (written from the Doist /
DoDoer docstrings and the statements of C03, C04, C05, not from the code).

Domain: fault-free programs (steps cont / ret / forever, enter ok / ret), flat
or nested, optional limit.  Number type is a parameter: float (the arithmetic
the documentation describes: tyme accumulates tock by tock) or Fraction (exact).

Quirk switch `asap_base_now` reproduces finding F5: a DoDoer re-schedules a
child that yielded 0/None at `tyme + dodoer.tock` instead of "the next cycle",
so with dodoer.tock == 0 a following yield t > 0 is counted from one scheduler
tock too early.
"""
from fractions import Fraction


class MNode:
    __slots__ = ("nid", "kind", "k", "due", "alive", "done", "children", "always", "tock", "asap")

    def __init__(self, nid, kind):
        self.nid = nid
        self.kind = kind
        self.k = 0
        self.due = None
        self.alive = False
        self.done = None
        self.children = []
        self.always = False
        self.tock = 0
        self.asap = False


def simulate(prog, num=float, asap_base_now=False, max_cycles=400):
    """returns dict(trace=[...], cycles=int, done=bool, node_done={nid:val}, tyme=final)
    trace events: ('enter', nid) ('recur', nid, cycle, tyme) ('clean', nid) ('cease', nid) ('exit', nid)"""
    N = (lambda x: num(x))
    T = N(prog["T"])
    tyme = N(prog["t0"])
    limit = N(prog["limit"]) if prog["limit"] is not None else None
    nodes = prog["nodes"]
    trace = []
    m = {}
    f5_trigger = [False]

    def mk(nid):
        nd = nodes[nid]
        x = MNode(nid, nd["kind"])
        m[nid] = x
        if nd["kind"] == "dodoer":
            x.always = nd["always"]
            x.tock = N(nd["tock"])
            x.children = [mk(c) for c in nd["children"]]
        return x

    roots = [mk(r) for r in prog["roots"]]

    def ret_done(val):
        return val if val is not None else False

    def enter(x, now):
        nd = nodes[x.nid]
        x.done = False
        trace.append(("enter", x.nid))
        if x.kind == "dodoer":
            x.alive = True
            for c in x.children:
                enter(c, now)
            x.due = now
            return
        if nd["enter"] == "ret":
            x.done = ret_done(nd["enter_val"])
            trace.append(("clean", x.nid))
            trace.append(("exit", x.nid))
            return
        x.alive = True
        x.due = now

    def wake_leaf(x, cyc, now, parent):
        nd = nodes[x.nid]
        trace.append(("recur", x.nid, cyc, now))
        steps = nd["steps"]
        k = x.k
        if k >= len(steps):
            act, val, y = "ret", True, None
        else:
            st = steps[k]
            act, val, y = st["act"], st.get("val"), st["y"]
        if act != "forever":
            x.k = k + 1
        if act == "ret":
            x.alive = False
            x.done = ret_done(val)
            trace.append(("clean", x.nid))
            trace.append(("exit", x.nid))
            return
        resched(x, y, now, parent)

    def resched(x, y, now, parent):
        if not y:
            # "runs again in the next cycle"
            if parent is not None and asap_base_now:
                x.due = now + parent.tock
            else:
                x.due = now + T
            x.asap = True
        else:
            if x.asap and parent is not None and parent.tock == 0:
                f5_trigger[0] = True
            x.due = x.due + N(y)
            x.asap = False

    def cycle(members, cyc, now, parent):
        for x in list(members):
            if not x.alive:
                continue
            if not (x.due <= now):
                continue
            if x.kind == "dodoer":
                trace.append(("recur", x.nid, cyc, now))
                cycle(x.children, cyc, now, x)
                if not any(c.alive for c in x.children) and not x.always:
                    x.alive = False
                    x.done = True
                    trace.append(("clean", x.nid))
                    trace.append(("exit", x.nid))
                else:
                    # a DoDoer yields its own tock
                    resched(x, x.tock, now, parent)
            else:
                wake_leaf(x, cyc, now, parent)

    def force(members):
        for x in reversed(members):
            if not x.alive:
                continue
            x.alive = False
            trace.append(("cease", x.nid))
            if x.kind == "dodoer":
                force(x.children)
            trace.append(("exit", x.nid))

    for r in roots:
        enter(r, tyme)
    start = tyme
    cyc = 0
    done = False
    while True:
        cycle(roots, cyc, tyme, None)
        tyme = tyme + T
        cyc += 1
        if not any(r.alive for r in roots):
            done = True
            break
        if limit and tyme >= start + limit:
            break
        if cyc > max_cycles:
            raise RuntimeError("model cycle cap")
    force(roots)
    return dict(trace=trace, cycles=cyc, done=done, tyme=tyme,
                node_done={nid: x.done for nid, x in m.items()}, f5_trigger=f5_trigger[0])


def enter_order(members, nodes_m):
    pass
