"""
Grammar-based generators for well-formed HTTP/1.x messages and server-sent
event streams, driven by the case tape.  Everything returns bytes plus a
readable description.
"""

TOKENS = ["a", "b", "x1", "foo", "Bar", "q-w"]
HNAMES = ["X-A", "X-B", "Accept", "User-Agent", "X-Long-Header-Name", "Cookie", "x-lower"]
HVALS = ["1", "text/plain", "a, b", "v=1; w=2", "*/*", "", "x" * 40, "colon: inside", "tab\there"]
PATHS = ["/", "/a", "/a/b.html", "/p%20q", "/echo", "/x/y/z", "/%7Euser"]
QUERIES = ["", "", "a=1", "a=1&b=2", "q=x%20y", "flag"]
BODY_ALPHABETS = [b"abcxyz", b"\r\n", bytes(range(256)), b"\n", b"\r", b"0\r\n\r\n", b"HTTP/1.1 200 OK\r\n"]


def gen_body(tape, maxlen=60):
    n = tape.draw("body_len", maxlen + 1)
    alpha = tape.pick("body_alpha", BODY_ALPHABETS)
    return bytes(alpha[tape.draw("body_byte", len(alpha))] for _ in range(n))


def gen_headers(tape, eol_of):
    hs = []
    for _ in range(tape.draw("nheaders", 5)):
        hs.append((tape.pick("hname", HNAMES), tape.pick("hval", HVALS)))
    return hs


def chunked(tape, body, eol_of, trailers=True):
    """chunked coding of body; framing lines always CRLF (hio's chunk parser accepts only CRLF there);
    trailer lines use the message's line ending"""
    out = bytearray()
    desc = []
    pos = 0
    while pos < len(body):
        n = 1 + tape.draw("chunk_len", min(16, len(body) - pos))
        ext = b""
        if tape.flag("chunk_ext", 1, 4):
            ext = tape.pick("chunk_ext_v", [b";a=1", b";name", b"; x = y ;z", b";q=\"v\""])
        sizefmt = tape.pick("size_fmt", ["%x", "%X", "0%x", "%x "])
        out += (sizefmt % n).encode() + ext + b"\r\n" + body[pos:pos + n] + b"\r\n"
        desc.append(n)
        pos += n
    ext = b";last=1" if tape.flag("last_ext", 1, 6) else b""
    out += b"0" + ext + b"\r\n"
    tr = []
    if trailers and tape.flag("trailers", 1, 3):
        for _ in range(1 + tape.draw("ntrailers", 2)):
            tr.append((tape.pick("tname", ["X-Trailer", "X-Sum"]), tape.pick("tval", ["1", "abc", "z z"])))
    for k, v in tr:
        out += ("%s: %s" % (k, v)).encode("latin1") + eol_of()
    out += eol_of()
    return bytes(out), dict(chunks=desc, trailers=tr)


def gen_request(tape, allow_close=True):
    style = tape.pick("eol_style", ["crlf", "crlf", "lf", "mixed"])

    def eol_of():
        if style == "crlf":
            return b"\r\n"
        if style == "lf":
            return b"\n"
        return b"\r\n" if tape.draw("eol_mix", 2) == 0 else b"\n"
    method = tape.pick("method", ["GET", "POST", "PUT", "DELETE", "PATCH", "OPTIONS"])
    version = tape.pick("version", ["HTTP/1.1", "HTTP/1.1", "HTTP/1.0"])
    path = tape.pick("path", PATHS)
    q = tape.pick("query", QUERIES)
    url = path + ("?" + q if q else "")
    lines = [("%s %s %s" % (method, url, version)).encode()]
    hs = [("Host", "example.com:8080")] + gen_headers(tape, eol_of)
    framing = tape.pick("framing", ["none", "length", "chunked", "length"])
    body = b""
    wire_body = b""
    info = {}
    if framing == "length":
        body = gen_body(tape)
        hs.append(("Content-Length", str(len(body))))
        wire_body = body
    elif framing == "chunked":
        body = gen_body(tape)
        hs.append(("Transfer-Encoding", tape.pick("te", ["chunked", "Chunked"])))
        wire_body, info = chunked(tape, body, eol_of)
    conn = tape.pick("conn", [None, None, "keep-alive", "close"] if allow_close else [None, "keep-alive"])
    if conn:
        hs.append(("Connection", conn))
    if tape.flag("ctype", 1, 3):
        hs.append(("Content-Type", tape.pick("ctype_v", ["application/json", "text/plain; charset=utf-8", "text/html"])))
    # header order shuffle (light)
    if len(hs) > 2 and tape.flag("hshuffle", 1, 2):
        i = 1 + tape.draw("hswap", len(hs) - 1)
        hs[1], hs[i] = hs[i], hs[1]
    out = bytearray()
    out += lines[0] + eol_of()
    for k, v in hs:
        out += ("%s: %s" % (k, v)).encode("latin1") + eol_of()
    out += eol_of()
    out += wire_body
    desc = dict(kind="request", start=lines[0].decode(), headers=hs, framing=framing, body_len=len(body), eol=style,
                body_has_eol=(b"\r" in body or b"\n" in body), **info)
    return bytes(out), desc


def gen_response(tape, method="GET", allow_close_delimited=True):
    style = tape.pick("eol_style", ["crlf", "crlf", "lf", "mixed"])

    def eol_of():
        if style == "crlf":
            return b"\r\n"
        if style == "lf":
            return b"\n"
        return b"\r\n" if tape.draw("eol_mix", 2) == 0 else b"\n"
    out = bytearray()
    ncont = tape.geometric("n100", 2, 1, 5)
    for _ in range(ncont):
        out += b"HTTP/1.1 100 Continue" + eol_of()
        if tape.flag("cont_hdr", 1, 2):
            out += b"X-C: 1" + eol_of()
        out += eol_of()
    version = tape.pick("version", ["HTTP/1.1", "HTTP/1.1", "HTTP/1.0"])
    status = tape.pick("status", [200, 200, 201, 404, 500, 204, 304, 206])
    reason = tape.pick("reason", ["OK", "Not Found", "", "Some Long Reason Phrase"])
    start = ("%s %d %s" % (version, status, reason)).rstrip().encode() if not reason else ("%s %d %s" % (version, status, reason)).encode()
    hs = gen_headers(tape, eol_of)
    framings = ["length", "chunked", "length"] + (["close"] if allow_close_delimited else [])
    framing = tape.pick("framing", framings)
    if status in (204, 304):
        framing = "none"
    body = b""
    wire_body = b""
    info = {}
    if framing == "length":
        body = gen_body(tape)
        hs.append(("Content-Length", str(len(body))))
        wire_body = body
    elif framing == "chunked":
        body = gen_body(tape)
        hs.append(("Transfer-Encoding", "chunked"))
        wire_body, info = chunked(tape, body, eol_of)
    elif framing == "close":
        body = gen_body(tape)
        wire_body = body
        if tape.flag("conn_close", 1, 2):
            hs.append(("Connection", "close"))
    if framing != "close":
        conn = tape.pick("conn", [None, None, "keep-alive", "close"])
        if conn:
            hs.append(("Connection", conn))
    if tape.flag("ctype", 1, 3):
        hs.append(("Content-Type", tape.pick("ctype_v", ["application/json", "text/plain; charset=utf-8"])))
    out += start + eol_of()
    for k, v in hs:
        out += ("%s: %s" % (k, v)).encode("latin1") + eol_of()
    out += eol_of()
    out += wire_body
    desc = dict(kind="response", start=start.decode(), headers=hs, framing=framing, body_len=len(body), eol=style, n100=ncont,
                body_has_eol=(b"\r" in body or b"\n" in body), **info)
    return bytes(out), desc


def partition(tape, data, forced_points=()):
    """split data into fragments; returns list of cut offsets (sorted, unique, 0<cut<len)"""
    n = len(data)
    cuts = set()
    mode = tape.pick("part_mode", ["few", "bytewise", "many", "forced"])
    if mode == "bytewise":
        cuts = set(range(1, n))
    else:
        k = {"few": 3, "many": 12, "forced": 4}[mode]
        for _ in range(tape.draw("ncuts", k + 1)):
            if n > 1:
                cuts.add(1 + tape.draw("cut", n - 1))
        # some 1-byte runs
        for _ in range(tape.draw("n1byte", 3)):
            if n > 2:
                c = 1 + tape.draw("cut1", n - 2)
                cuts.add(c)
                cuts.add(c + 1)
    fp = [p for p in forced_points if 0 < p < n]
    if fp and (mode == "forced" or tape.flag("force_cut", 1, 2)):
        for _ in range(1 + tape.draw("nforced", 3)):
            cuts.add(fp[tape.draw("forced_ix", len(fp))])
    return sorted(cuts)


def interesting_points(data):
    """offsets inside line terminators and around the head/body boundary"""
    pts = []
    for i in range(len(data) - 1):
        if data[i:i + 2] == b"\r\n":
            pts.append(i + 1)      # between CR and LF
    i = data.find(b"\r\n\r\n")
    if i >= 0:
        pts += [i + 2, i + 3, i + 4]
    i = data.find(b"\n\n")
    if i >= 0:
        pts += [i + 1, i + 2]
    return pts
