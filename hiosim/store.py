"""
Engine `store`: real LMDB through hio's real Duror / Subery in a scratch
directory (tmpfs), with clean reopen and process-death crash points
(fork + os._exit at the N-th executed line of hio's storage modules).
"""
import os
import shutil
import atexit
import tempfile

from . import tree
tree.load()
from hio.base import during                      # noqa: E402
from hio.base.hier import holding, durqing, dusqing, bagging   # noqa: E402

tree.assert_tree_module(during)

_dirs = []


def scratch():
    base = "/dev/shm" if os.path.isdir("/dev/shm") else tempfile.gettempdir()
    d = tempfile.mkdtemp(prefix="hiosim-%d-" % os.getpid(), dir=base)
    _dirs.append(d)
    return d


def cleanup(d):
    shutil.rmtree(d, ignore_errors=True)
    if d in _dirs:
        _dirs.remove(d)


@atexit.register
def _cleanup_all():
    for d in list(_dirs):
        shutil.rmtree(d, ignore_errors=True)


def open_subery(path, name="sim"):
    return during.Subery(name=name, temp=False, headDirPath=path, reopen=True)


def open_duror(path, name="sim"):
    return during.Duror(name=name, temp=False, headDirPath=path, reopen=True)


STORAGE_FILES = ("during.py", "durqing.py", "dusqing.py", "holding.py")
