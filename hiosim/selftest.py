"""
./check selftest : setup command.  Nothing to build; verifies that the tree
imports from /repo/src, that every seam the engines rely on is where we expect
it, and that each existing check replays identically for a few seeds.
"""
import os
import sys
import glob
import importlib


def main():
    from . import tree, core
    tree.load()
    import hio
    print("hio tree:", hio.__file__, hio.__version__, tree.git_head())
    problems = []
    seams = [("hio.base.doing", "time"), ("hio.help.timing", "time"),
             ("hio.core.tcp.clienting", "socket"), ("hio.core.tcp.serving", "socket"),
             ("hio.core.tcp.clienting", "ssl"), ("hio.core.tcp.serving", "ssl"),
             ("hio.core.udp.udping", "socket"), ("hio.core.memo.memoing", "uuid"), ("hio.core.coring", "socket")]
    for modname, attr in seams:
        try:
            m = importlib.import_module(modname)
            tree.assert_tree_module(m)
            if not hasattr(m, attr):
                problems.append("seam %s.%s missing" % (modname, attr))
        except Exception as ex:
            problems.append("seam module %s: %r" % (modname, ex))
    # determinism of each check on a few seeds (in-process twice; fresh interpreter is part of every check run)
    here = os.path.dirname(os.path.abspath(__file__))
    for path in sorted(glob.glob(os.path.join(here, "checks", "c[0-9][0-9].py"))):
        pid = os.path.basename(path)[:-3].upper()
        try:
            mod = core.load_check(pid)
            det = core.selftest_determinism(pid, mod, "quick", 1, k=3, fresh=False)
            print("  %s determinism: %s" % (pid, det))
            if not det.get("ok"):
                problems.append("%s not deterministic: %s" % (pid, det))
        except Exception as ex:
            problems.append("%s: %r" % (pid, ex))
    if problems:
        for p in problems:
            print("SELFTEST-PROBLEM", p)
        return 2
    print("selftest ok")
    return 0
