"""
hiosim core: choice tape, per-case seeds, sharded runner, minimiser, replay,
evidence writer and known-findings matching.

One integer (VERIF_SEED) decides everything.  A case is a pure function

        run_case(tape, tier) -> Result

of the tape (and the code under test).  In generate mode the tape draws from a
random.Random seeded by H(seed, property, case index) and records every draw;
in replay mode it reads the recorded values back.  0 is always the benign
choice (no fault, shortest, first), which is what makes generic shrinking work.
"""
import os
import sys
import json
import time
import random
import hashlib
import traceback
import subprocess
import importlib
import faulthandler
import gc
import signal
from collections import Counter

VERIF = os.path.dirname(os.path.dirname(os.path.abspath(__file__)))
PYTHON = "/venv/bin/python"
CHECK_VERSION = 1


# --------------------------------------------------------------------------
# tape
# --------------------------------------------------------------------------
class Tape:
    __slots__ = ("rng", "values", "pos", "log", "replay", "overrun")

    def __init__(self, seed=None, values=None):
        if values is not None:
            self.replay = True
            self.values = list(values)
            self.rng = None
        else:
            self.replay = False
            self.values = None
            self.rng = random.Random(seed)
        self.pos = 0
        self.log = []      # [(label, n, value)]
        self.overrun = 0   # draws answered with 0 because the tape was exhausted

    def draw(self, label, n):
        """int in [0, n).  n <= 1 draws nothing."""
        if n <= 1:
            return 0
        if self.replay:
            if self.pos < len(self.values):
                v = self.values[self.pos]
                if v >= n:
                    v = n - 1
                elif v < 0:
                    v = 0
            else:
                v = 0
                self.overrun += 1
            self.pos += 1
        else:
            v = self.rng.randrange(n)
        self.log.append((label, n, v))
        return v

    def flag(self, label, num, den):
        """True with probability num/den; 0 (benign) encodes False."""
        if num <= 0:
            return False
        return self.draw(label, den) >= den - num

    def pick(self, label, seq):
        return seq[self.draw(label, len(seq))]

    def weighted(self, label, weights):
        """index drawn with the given integer weights; keep the benign one first."""
        tot = sum(weights)
        v = self.draw(label, tot)
        for i, w in enumerate(weights):
            if v < w:
                return i
            v -= w
        return len(weights) - 1

    def geometric(self, label, maxv, num=1, den=2):
        """0..maxv, each further step with probability num/den"""
        k = 0
        while k < maxv and self.flag(label, num, den):
            k += 1
        return k

    def recorded(self):
        return [v for (_l, _n, v) in self.log]


def case_seed(seed, pid, index):
    h = hashlib.blake2b(("%d/%s/%d" % (seed, pid, index)).encode(), digest_size=8).digest()
    return int.from_bytes(h, "big")


def digest(obj):
    """stable digest of a json-able object (or bytes/str)"""
    if isinstance(obj, (bytes, bytearray)):
        b = bytes(obj)
    elif isinstance(obj, str):
        b = obj.encode()
    else:
        b = json.dumps(obj, sort_keys=True, default=repr, separators=(",", ":")).encode()
    return hashlib.blake2b(b, digest_size=8).hexdigest()


# --------------------------------------------------------------------------
# result of one case
# --------------------------------------------------------------------------
class Result:
    __slots__ = ("violations", "known", "faults", "probes", "nontrivial",
                 "scen_digest", "event_digest", "sim_time", "scenario",
                 "comparisons", "faultfree", "steps")

    def __init__(self):
        self.violations = []   # [(oracle_id, message)]
        self.known = []        # [(finding_id, message)]
        self.faults = Counter()
        self.probes = Counter()
        self.nontrivial = False
        self.scen_digest = ""
        self.event_digest = ""
        self.sim_time = 0.0
        self.scenario = None   # json-able readable form (may be a callable producing it)
        self.comparisons = 0
        self.faultfree = True
        self.steps = 0

    def violate(self, oracle, msg):
        self.violations.append((oracle, str(msg)[:2000]))

    def finding(self, fid, msg):
        self.known.append((fid, str(msg)[:600]))

    def get_scenario(self):
        s = self.scenario
        if callable(s):
            s = s()
            self.scenario = s
        return s


class HarnessError(Exception):
    pass


# --------------------------------------------------------------------------
# known findings
# --------------------------------------------------------------------------
def load_known(pid):
    path = os.path.join(VERIF, "known_findings.json")
    known, fixed = {}, {}
    try:
        with open(path) as f:
            data = json.load(f)
    except FileNotFoundError:
        return known, fixed
    for e in data.get("findings", []):
        if e.get("property") != pid:
            continue
        if e.get("status") == "known":
            known[e["id"]] = e
        elif e.get("status") == "fixed":
            fixed[e["id"]] = e
    return known, fixed


# --------------------------------------------------------------------------
# running cases
# --------------------------------------------------------------------------
def load_check(pid):
    from . import tree
    tree.load()
    mod = importlib.import_module("hiosim.checks.%s" % pid.lower())
    return mod


def _disarm():
    """cancel the case alarm; a repeat alarm may land at any bytecode, also here"""
    while True:
        try:
            signal.setitimer(signal.ITIMER_REAL, 0)
            return
        except CaseTimeout:
            continue


def run_one(mod, tier, seed=None, values=None):
    """run one case; exceptions escaping the harness are HarnessError"""
    tape = Tape(seed=seed, values=values)
    saved_err = sys.stderr
    sys.stderr = _DEVNULL    # hio writes parse errors to sys.stderr; never part of any digest
    limit = float(getattr(mod, "CASE_TIMEOUT", CASE_TIMEOUT))
    old_handler = signal.signal(signal.SIGALRM, _on_alarm)
    res = None
    timed_out = False
    escaped = None
    harness_exc = None
    # the alarm repeats every 5 s after the first one: the cleanup that the first CaseTimeout runs through (finally blocks of
    # the code under test) may hang as well.  Everything that has to happen after a timeout happens once the alarm is disarmed.
    signal.setitimer(signal.ITIMER_REAL, limit, 5.0)
    try:
        try:
            res = mod.run_case(tape, tier)
        except CaseTimeout:
            timed_out = True
        except HarnessError as ex:
            harness_exc = ex
        except Exception as ex:
            escaped = (ex, traceback.format_exc())
        except BaseException as ex:  # a bug in the harness, never a violation
            harness_exc = HarnessError("harness exception in %s: %s\n%s" % (mod.PID, repr(ex), traceback.format_exc()))
    except CaseTimeout:      # a repeat alarm that landed inside one of the handlers above
        timed_out = True
    finally:
        _disarm()
        signal.signal(signal.SIGALRM, old_handler)
        sys.stderr = saved_err
    if timed_out:
        # the code under test (or a loop it drives) did not terminate: on the unchanged tree every case
        # takes milliseconds, so this is reported as a violation of the property the case exercises
        res = Result()
        res.violate("case-timeout", "case did not finish within %.0f s (non-termination); draws so far: %d" % (limit, len(tape.log)))
        res.scen_digest = digest(tape.recorded())
        res.event_digest = "timeout"
        res.scenario = dict(note="timed out", draws=len(tape.log))
    elif harness_exc is not None:
        raise harness_exc
    elif escaped is not None:
        # An exception that travelled through a frame of the tree under test escaped from hio into the harness: hio
        # either raised it or let a (simulated) system error through.  No case on the unchanged tree does that, every
        # check calls hio only in ways its documentation allows, so this is reported as a violation of the property the
        # case exercises (it replays like any other).  An exception that never touched the tree is a harness bug.
        ex, formatted = escaped
        from . import tree as _tree
        src = os.path.realpath(_tree.SRC) + os.sep
        frames = traceback.extract_tb(ex.__traceback__)
        inside = [f for f in frames if os.path.realpath(f.filename).startswith(src)]
        if not inside:
            raise HarnessError("harness exception in %s: %s\n%s" % (mod.PID, repr(ex), formatted)) from ex
        f = inside[-1]
        res = Result()
        res.violate("code-under-test-raised", "%s: %s escaped from hio (%s:%d in %s) into the harness call %s" % (
            type(ex).__name__, str(ex)[:160], os.path.relpath(f.filename, src), f.lineno, f.name,
            " > ".join("%s:%d" % (os.path.basename(g.filename), g.lineno) for g in frames[:3])))
        res.scen_digest = digest(tape.recorded())
        res.event_digest = "raised"
        res.scenario = dict(note="exception escaped from the code under test", exception=repr(ex)[:300], draws=len(tape.log))
    return tape, res


CASE_TIMEOUT = 20.0


class CaseTimeout(BaseException):
    pass


def _on_alarm(signum, frame):
    raise CaseTimeout()


class _DevNull:
    def write(self, s):
        return len(s)

    def flush(self):
        pass


_DEVNULL = _DevNull()


def classify(res, known):
    """split a result into (violations, known-hits); an unlisted finding id is a violation"""
    viols = list(res.violations)
    hits = []
    for fid, msg in res.known:
        if fid in known:
            hits.append((fid, msg))
        else:
            viols.append(("finding-not-listed:" + fid, msg))
    return viols, hits


def _worker(args):
    pid, tier, seed, start, count, wall_deadline = args
    faulthandler.dump_traceback_later(600, exit=True)
    try:
        # a change that makes the code under test allocate without bound should surface as MemoryError inside the case
        # (an exception escaping from hio, i.e. a violation), not as a worker killed by the kernel
        import resource
        soft, hard = resource.getrlimit(resource.RLIMIT_AS)
        cap = 5 << 29      # 2.5 GB: 16 workers must not add up to the machine
        if soft == resource.RLIM_INFINITY or soft > cap:
            resource.setrlimit(resource.RLIMIT_AS, (cap, hard))
    except Exception:
        pass
    try:
        mod = load_check(pid)
        known, _fixed = load_known(pid)
        out = dict(evals=0, nontrivial=set(), events=set(), faults=Counter(), probes=Counter(),
                   viol=[], known=Counter(), known_msg={}, sim_time=0.0, comparisons=0,
                   samples=[], faultfree=0, faulted=0, steps=0, errors=[])
        for i in range(start, start + count):
            if time.time() > wall_deadline:
                break
            cs = case_seed(seed, pid, i)
            try:
                tape, res = run_one(mod, tier, seed=cs)
            except HarnessError as ex:
                out["errors"].append((i, str(ex)[:3000]))
                break
            out["evals"] += 1
            out["faults"].update(res.faults)
            out["probes"].update(res.probes)
            out["sim_time"] += res.sim_time
            out["comparisons"] += res.comparisons
            out["steps"] += res.steps
            if res.faultfree:
                out["faultfree"] += 1
            else:
                out["faulted"] += 1
            if res.event_digest:
                out["events"].add(res.event_digest)
            if res.nontrivial:
                out["nontrivial"].add(res.scen_digest)
                if len(out["samples"]) < 2:
                    out["samples"].append(dict(case=i, scenario=res.get_scenario()))
            viols, hits = classify(res, known)
            for fid, msg in hits:
                out["known"][fid] += 1
                out["known_msg"].setdefault(fid, (i, msg))
            if viols and len(out["viol"]) < 5:
                out["viol"].append((i, viols, tape.recorded()))
            elif viols:
                out["viol"].append((i, viols[:1], None))
        return out
    finally:
        faulthandler.cancel_dump_traceback_later()


def minimise(mod, tier, values, oracle, known, budget_s=25.0, max_runs=4000):
    """generic tape shrinking: keep a candidate iff the same oracle id still fires"""
    t0 = time.time()
    runs = [0]

    def fires(vals):
        runs[0] += 1
        try:
            _t, res = run_one(mod, tier, values=vals)
        except HarnessError:
            return False
        viols, _ = classify(res, known)
        return any(o == oracle for o, _m in viols)

    def out_of_budget():
        return time.time() - t0 > budget_s or runs[0] > max_runs

    best = list(values)
    # strip trailing zeros (exhausted tape reads 0)
    while best and best[-1] == 0:
        best.pop()
    improved = True
    while improved and not out_of_budget():
        improved = False
        # 1. truncate tail
        n = len(best)
        cut = n // 2
        while cut >= 1 and not out_of_budget():
            cand = best[:len(best) - cut]
            if len(cand) < len(best) and fires(cand):
                best = cand
                while best and best[-1] == 0:
                    best.pop()
                improved = True
            else:
                cut //= 2
        # 2. delete chunks
        size = max(1, len(best) // 4)
        while size >= 1 and not out_of_budget():
            i = 0
            while i + size <= len(best) and not out_of_budget():
                cand = best[:i] + best[i + size:]
                if fires(cand):
                    best = cand
                    improved = True
                else:
                    i += size
            size //= 2
        # 3. zero chunks / single values
        size = max(1, len(best) // 4)
        while size >= 1 and not out_of_budget():
            i = 0
            while i < len(best) and not out_of_budget():
                seg = best[i:i + size]
                if any(seg):
                    cand = best[:i] + [0] * len(seg) + best[i + size:]
                    if fires(cand):
                        best = cand
                        improved = True
                i += size
            size //= 2
        # 4. shrink single values
        for i in range(len(best)):
            if out_of_budget():
                break
            v = best[i]
            while v > 0 and not out_of_budget():
                for nv in (v // 2, v - 1):
                    if nv < v:
                        cand = best[:i] + [nv] + best[i + 1:]
                        if fires(cand):
                            best = cand
                            v = nv
                            improved = True
                            break
                else:
                    break
        while best and best[-1] == 0:
            best.pop()
    return best, runs[0]


def write_replay(pid, tier, seed, case, values, mod, known):
    tape, res = run_one(mod, tier, values=values)
    viols, hits = classify(res, known)
    doc = dict(property=pid, check_version=CHECK_VERSION, tier=tier, seed=seed, case=case,
               tape=tape.recorded(),
               tape_labels=[l for (l, _n, _v) in tape.log],
               violation=[dict(oracle=o, message=m) for o, m in viols],
               known_findings_hit=[f for f, _ in hits],
               scenario=res.get_scenario(),
               event_digest=res.event_digest,
               tree=_tree_id())
    d = digest(dict(t=doc["tape"], o=[v["oracle"] for v in doc["violation"]]))
    rdir = os.path.join(VERIF, "replays")
    os.makedirs(rdir, exist_ok=True)
    path = os.path.join(rdir, "%s-%s.json" % (pid, d))
    with open(path, "w") as f:
        json.dump(doc, f, indent=1, default=repr)
    return path, doc


def _tree_id():
    from . import tree
    return dict(version=tree.tree_version(), head=tree.git_head())


def replay_file(pid, path, quiet=False):
    """replay a file; exit code 1 + VIOLATION line if the recorded oracle fires again"""
    with open(path) as f:
        doc = json.load(f)
    mod = load_check(pid)
    known, _ = load_known(pid)
    tier = doc.get("tier", "quick")
    tape, res = run_one(mod, tier, values=doc["tape"])
    viols, hits = classify(res, known)
    want = [v["oracle"] for v in doc.get("violation", [])]
    got = [o for o, _ in viols]
    same_digest = (res.event_digest == doc.get("event_digest"))
    if not quiet:
        print("replay %s: oracles now=%s recorded=%s event_digest_same=%s overrun=%d" % (
            path, got, want, same_digest, tape.overrun))
        for o, m in viols:
            print("  %s: %s" % (o, m))
    if viols:
        print("VIOLATION property=%s replay=%s" % (pid, path))
        return 1
    return 0


def fresh_replay(pid, path):
    """replay in a fresh interpreter; True iff it exits 1 with a VIOLATION line"""
    env = dict(os.environ)
    env["PYTHONHASHSEED"] = "0"
    p = subprocess.run([PYTHON, os.path.join(VERIF, "check"), pid, "--replay", path],
                       capture_output=True, text=True, env=env, timeout=600)
    return p.returncode == 1 and ("VIOLATION property=%s" % pid) in p.stdout, p.stdout[-2000:] + p.stderr[-2000:]


def selftest_determinism(pid, mod, tier, seed, k=6, fresh=True):
    """same case seed twice in-process, and once in a fresh interpreter under
    another PYTHONHASHSEED: event digests must be identical."""
    a = []
    for i in range(k):
        cs = case_seed(seed, pid, 1000003 + i)
        _t, r1 = run_one(mod, tier, seed=cs)
        gc.collect()
        _t, r2 = run_one(mod, tier, seed=cs)
        if (r1.event_digest, r1.scen_digest) != (r2.event_digest, r2.scen_digest):
            return dict(ok=False, where="in-process", case=1000003 + i)
        a.append(r1.event_digest + r1.scen_digest)
    info = dict(ok=True, cases=k, in_process_pairs=k, fresh_interpreter=False)
    if fresh:
        env = dict(os.environ)
        env["PYTHONHASHSEED"] = "12345"
        env["VERIF_SEED"] = str(seed)
        p = subprocess.run([PYTHON, os.path.join(VERIF, "check"), pid, "--digests", str(k),
                            "--tier", tier],
                           capture_output=True, text=True, env=env, timeout=600)
        if p.returncode != 0:
            return dict(ok=False, where="fresh-interpreter-run", detail=(p.stdout + p.stderr)[-1500:])
        b = [l.strip() for l in p.stdout.splitlines() if l.startswith("D ")]
        b = [l[2:] for l in b]
        if a != b:
            return dict(ok=False, where="fresh-interpreter-diff", a=a, b=b)
        info["fresh_interpreter"] = True
        info["other_hashseed"] = 12345
    return info


def print_digests(pid, tier, seed, k, order="fwd"):
    """digests of k fixed cases, computed in forward or reverse order but always printed in case order:
    any dependence on what ran before in the same process shows up as a difference"""
    mod = load_check(pid)
    idx = list(range(k))
    if order == "rev":
        idx.reverse()
    out = {}
    for i in idx:
        cs = case_seed(seed, pid, 1000003 + i)
        _t, r = run_one(mod, tier, seed=cs)
        out[i] = r.event_digest + r.scen_digest
    for i in range(k):
        print("D " + out[i])
    return 0


def main_check(pid, tier, seed, cases=None, jobs=None, wall=None):
    from concurrent.futures import ProcessPoolExecutor, as_completed
    import multiprocessing as mp

    t0 = time.time()
    mod = load_check(pid)
    known, fixed = load_known(pid)
    cfg = dict(mod.TIERS[tier])
    if cases is not None:
        cfg["cases"] = cases
    if wall is not None:
        cfg["wall"] = wall
    ncases = cfg["cases"]
    wall_budget = cfg.get("wall", 60.0)
    jobs = jobs or int(os.environ.get("VERIF_JOBS", "0")) or min(16, os.cpu_count() or 4)
    chunk = cfg.get("chunk", max(1, min(400, ncases // (jobs * 4) or 1)))

    # VERIF_TRIAGE=1 (tools/mutate.py only): no self-test, stop at the first violation, no shrinking, no replay
    # file, no evidence -- a fast yes/no for mass runs against deliberately broken copies of the tree
    triage = os.environ.get("VERIF_TRIAGE") == "1"
    # determinism self-test first (harness error if it fails: nothing would be believable)
    det = dict(ok=True, skipped=True) if triage else selftest_determinism(pid, mod, tier, seed, k=cfg.get("det_k", 4))
    if not det.get("ok"):
        print("HARNESS-ERROR property=%s determinism self-test failed: %s" % (pid, json.dumps(det)[:1500]))
        return 2

    deadline = time.time() + wall_budget     # the budget is for the cases; the self-test above has its own
    agg = dict(evals=0, nontrivial=set(), events=set(), faults=Counter(), probes=Counter(),
               viol=[], known=Counter(), known_msg={}, sim_time=0.0, comparisons=0, samples=[],
               faultfree=0, faulted=0, steps=0, errors=[])
    tasks = [(pid, tier, seed, s, min(chunk, ncases - s), deadline) for s in range(0, ncases, chunk)]
    harness_failed = None
    if jobs == 1:
        results = (_worker(t) for t in tasks)
    else:
        ctx = mp.get_context("fork")
        ex = ProcessPoolExecutor(max_workers=jobs, mp_context=ctx)
        futs = [ex.submit(_worker, t) for t in tasks]

        def _gen():
            for f in as_completed(futs, timeout=wall_budget + 600):
                yield f.result()
        results = _gen()
    try:
        for out in results:
            agg["evals"] += out["evals"]
            agg["nontrivial"] |= out["nontrivial"]
            agg["events"] |= out["events"]
            agg["faults"].update(out["faults"])
            agg["probes"].update(out["probes"])
            agg["known"].update(out["known"])
            for k_, v_ in out["known_msg"].items():
                agg["known_msg"].setdefault(k_, v_)
            agg["sim_time"] += out["sim_time"]
            agg["comparisons"] += out["comparisons"]
            agg["faultfree"] += out["faultfree"]
            agg["faulted"] += out["faulted"]
            agg["steps"] += out["steps"]
            agg["viol"].extend(out["viol"])
            agg["errors"].extend(out["errors"])
            if len(agg["samples"]) < 3:
                agg["samples"].extend(out["samples"][:3 - len(agg["samples"])])
            if triage and (agg["viol"] or agg["errors"]):
                break
    except BaseException as exn:
        harness_failed = "worker pool failed: %r" % (exn,)
    finally:
        if jobs != 1:
            ex.shutdown(wait=False, cancel_futures=True)

    if agg["errors"]:
        harness_failed = "harness exception in case %d: %s" % agg["errors"][0]
    if agg["evals"] == 0 and not harness_failed:
        harness_failed = "no case was evaluated within the wall budget of %.0f s: nothing was checked" % wall_budget
    if triage:
        if harness_failed:
            print("TRIAGE-HARNESS-ERROR property=%s %s" % (pid, harness_failed[:300].replace("\n", " ")))
            return 2
        seen = set()
        for (idx, viols, values) in sorted(agg["viol"], key=lambda t: t[0]):
            if viols[0][0] not in seen and len(seen) < 3:
                seen.add(viols[0][0])
                print("TRIAGE-VIOLATION property=%s case=%d oracle=%s %s" % (pid, idx, viols[0][0], viols[0][1][:200].replace("\n", " ")))
        print("TRIAGE property=%s cases=%d violations=%d" % (pid, agg["evals"], len(agg["viol"])))
        return 1 if agg["viol"] else 0

    # ---- violations: minimise, write replay, confirm in a fresh interpreter
    reported = []
    not_reproduced = []
    if agg["viol"] and not harness_failed:
        agg["viol"].sort(key=lambda t: t[0])
        seen_oracles = set()
        for (idx, viols, values) in agg["viol"]:
            oracle = viols[0][0]
            if oracle in seen_oracles or values is None or len(seen_oracles) >= 3:
                continue
            seen_oracles.add(oracle)
            if oracle == "case-timeout":
                small, nruns = list(values), 0       # every shrink run would cost a full timeout
            else:
                small, nruns = minimise(mod, tier, values, oracle, known,
                                        budget_s=cfg.get("min_budget", 20.0))
            path, doc = write_replay(pid, tier, seed, idx, small, mod, known)
            if not any(v["oracle"] == oracle for v in doc["violation"]):
                # minimised tape lost it (should not happen); fall back to the original
                path, doc = write_replay(pid, tier, seed, idx, values, mod, known)
            ok, outp = fresh_replay(pid, path)
            if ok:
                reported.append((oracle, path, doc, nruns, len(values), len(doc["tape"])))
            else:
                not_reproduced.append((oracle, path, outp))
        if not_reproduced and not reported:
            harness_failed = "violation did not reproduce in a fresh interpreter: %s" % (not_reproduced[0],)

    wall_s = time.time() - t0
    nviol = len(agg["viol"])
    # ---- evidence
    ev = dict(
        property_id=pid, tier=tier, seed=seed, level=mod.LEVEL,
        coverage=dict(
            evaluations=agg["evals"],
            distinct_nontrivial=len(agg["nontrivial"]),
            rule=mod.RULE,
            samples=agg["samples"] or [dict(note="no non-trivial case in this run")],
            fault_counts=dict(sorted(agg["faults"].items())),
            probe_counts=dict(sorted(agg["probes"].items())),
            probes_at_zero=[p for p in getattr(mod, "PROBES", []) if not agg["probes"].get(p)],
            distinct_event_digests=len(agg["events"]),
            fault_free_cases=agg["faultfree"], fault_injecting_cases=agg["faulted"],
            oracle_comparisons=agg["comparisons"],
            sim_steps=agg["steps"],
            sim_time_covered=round(agg["sim_time"], 3),
            sim_time_unit=getattr(mod, "SIM_TIME_UNIT", "simulated seconds (tyme)"),
            runs_per_hour=int(agg["evals"] / max(wall_s, 1e-6) * 3600),
            cases_planned=ncases, jobs=jobs,
            stopped_by_wall_budget=agg["evals"] < ncases,
            components=getattr(mod, "COMPONENTS", {}),
            determinism_selftest=det,
            known_findings_hit={k_: v_ for k_, v_ in sorted(agg["known"].items())},
            fixed_findings_watched=sorted(fixed),
            bounds=getattr(mod, "BOUNDS", {}),
            tree=_tree_id(),
            exhaustive=False,
        ),
        assumptions=list(getattr(mod, "ASSUMPTIONS", [])),
        wall_s=round(wall_s, 3),
        violations=nviol,
    )
    if harness_failed:
        ev["coverage"]["harness_error"] = harness_failed[:2000]
    # VERIF_EVIDENCE_DIR: used by tools/seedtest.sh so that runs against a deliberately broken tree
    # never overwrite the evidence of the real one
    evdir = os.environ.get("VERIF_EVIDENCE_DIR") or os.path.join(VERIF, "evidence")
    os.makedirs(evdir, exist_ok=True)
    with open(os.path.join(evdir, "%s.json" % pid), "w") as f:
        json.dump(ev, f, indent=1, default=repr)

    # ---- report
    print("%s %s seed=%d cases=%d nontrivial-distinct=%d event-digests=%d wall=%.1fs runs/h=%d" % (
        pid, tier, seed, agg["evals"], len(agg["nontrivial"]), len(agg["events"]), wall_s,
        ev["coverage"]["runs_per_hour"]))
    print("  faults fired: %s" % dict(agg["faults"].most_common(12)))
    zero = ev["coverage"]["probes_at_zero"]
    if zero:
        print("  probes at zero: %s" % zero)
    for fid, cnt in sorted(agg["known"].items()):
        i, msg = agg["known_msg"][fid]
        print("KNOWN-FINDING: property=%s %s %s (hit in %d cases, e.g. case %d: %s)" % (
            pid, fid, known[fid].get("what", ""), cnt, i, msg))
    if harness_failed:
        print("HARNESS-ERROR property=%s %s" % (pid, harness_failed[:3000]))
        return 2
    if reported:
        for oracle, path, doc, nruns, n0, n1 in reported:
            print("  oracle %s: tape %d -> %d draws after %d shrink runs; %s" % (
                oracle, n0, n1, nruns, doc["violation"][0]["message"][:500]))
            print("VIOLATION property=%s replay=%s" % (pid, path))
        return 1
    if nviol:
        print("HARNESS-ERROR property=%s violations seen but none could be written" % pid)
        return 2
    return 0
