"""
TLS over the fake kernel: a real OpenSSL engine (ssl.SSLObject over two
MemoryBIOs) whose ciphertext is pumped through a FakeSocket.  Installed through
hio's existing seam, the `context=` constructor parameter of ClientTls /
ServerTls: SimSSLContext.wrap_socket() returns a SimSSLSocket that behaves like
a non-blocking ssl.SSLSocket (do_handshake / send / recv / shutdown / close),
including how CPython maps conditions to exceptions:

* no complete record available      -> ssl.SSLWantReadError
* ciphertext cannot be flushed      -> ssl.SSLWantWriteError
* TCP FIN without close_notify      -> recv returns b'' (suppress_ragged_eofs),
                                       do_handshake raises ssl.SSLEOFError
* errno from the transport          -> that OSError (ECONNRESET, EPIPE, ...)
"""
import os
import ssl
import errno

CERTS = os.path.join(os.path.dirname(os.path.abspath(__file__)), "certs")

_ctx_cache = {}


def real_contexts():
    """(client_ctx, server_ctx): real ssl contexts, no verification (test certs)"""
    if "c" not in _ctx_cache:
        c = ssl.SSLContext(ssl.PROTOCOL_TLS_CLIENT)
        c.check_hostname = False
        c.verify_mode = ssl.CERT_NONE
        s = ssl.SSLContext(ssl.PROTOCOL_TLS_SERVER)
        s.verify_mode = ssl.CERT_NONE
        s.load_cert_chain(os.path.join(CERTS, "server_cert.pem"), os.path.join(CERTS, "server_key.pem"))
        # session tickets vary in size between runs only through their content; keep TLS 1.3 default
        _ctx_cache["c"], _ctx_cache["s"] = c, s
    return _ctx_cache["c"], _ctx_cache["s"]


class SimSSLContext:
    """looks enough like ssl.SSLContext for hio (verify_mode, check_hostname, wrap_socket, load_*)"""

    def __init__(self, net, server_side):
        self.net = net
        c, s = real_contexts()
        self.real = s if server_side else c
        self.verify_mode = ssl.CERT_NONE
        self.check_hostname = False
        self.options = 0
        self.verify_flags = 0

    def load_verify_locations(self, *a, **k):
        pass

    def load_default_certs(self, *a, **k):
        pass

    def load_cert_chain(self, *a, **k):
        pass

    def set_ciphers(self, *a):
        pass

    def wrap_socket(self, sock, server_side=False, do_handshake_on_connect=True,
                    suppress_ragged_eofs=True, server_hostname=None, session=None):
        return SimSSLSocket(self, sock, server_side, server_hostname, suppress_ragged_eofs)


class SimSSLSocket:
    MAX_RECORD = 16384      # plaintext bytes per TLS record

    def __init__(self, ctx, sock, server_side, server_hostname, suppress_ragged_eofs=True):
        self.ctx = ctx
        self.net = ctx.net
        self.sock = sock
        self.server_side = server_side
        self.incoming = ssl.MemoryBIO()
        self.outgoing = ssl.MemoryBIO()
        self.obj = ctx.real.wrap_bio(self.incoming, self.outgoing, server_side=server_side,
                                     server_hostname=None if server_side else (server_hostname or None))
        self.pending = bytearray()    # ciphertext not yet accepted by the transport
        self.retry = None             # plaintext of a record that is in .pending after SSLWantWriteError
        self.io_tymes = []            # tymes (net.tymth) at which send()/recv() moved plaintext
        self.suppress_ragged_eofs = suppress_ragged_eofs
        self.eof_in = False
        self.handshook = False
        self.calls = dict(send=0, recv=0, handshake=0)
        self.plain_tx = bytearray()   # plaintext accepted by send()
        self.plain_rx = bytearray()   # plaintext returned by recv()
        self.owner = sock.owner
        self.sid = sock.sid
        self.net.tls_sockets.append(self) if hasattr(self.net, "tls_sockets") else None

    # -- plumbing
    def _flush(self):
        """push ciphertext to the transport; returns True if everything was accepted"""
        if self.outgoing.pending:
            self.pending.extend(self.outgoing.read())
        while self.pending:
            try:
                n = self.sock.send(self.pending)
            except BlockingIOError:
                return False
            if n <= 0:
                return False
            del self.pending[:n]
        return True

    def _fill(self):
        """pull ciphertext from the transport; returns True if anything (or EOF) arrived"""
        try:
            data = self.sock.recv(65536)
        except BlockingIOError:
            return False
        if data == b"":
            if not self.eof_in:
                self.eof_in = True
                self.incoming.write_eof()
                return True
            return False
        self.incoming.write(data)
        return True

    def _tls_fault(self, op):
        """faults injected at the TLS call level: spurious want-read/write, SSL EOF"""
        net = self.net
        key = ("tls_" + op, self.owner)
        n = net.op_calls.get(key, 0)
        net.op_calls[key] = n + 1
        plan = net.errno_plan.get(key)
        if plan is not None and plan[0] == n:
            del net.errno_plan[key]
            code = plan[1]
            if code == "SSL_EOF":
                net.count("ssl_eof_%s" % op)
                self.sock._after_injected_errno(errno.ECONNRESET)
                raise ssl.SSLEOFError(ssl.SSL_ERROR_EOF, "EOF occurred in violation of protocol (_ssl.c:0)")
            net.count("errno_tls_%s_%s" % (op, errno.errorcode.get(code, code)))
            self.sock._after_injected_errno(code)
            raise OSError(code, os.strerror(code))
        if net.faults_on and net.rates.get("spurious_want"):
            if net.tape.flag("spurious_want", net.rates["spurious_want"], 16):
                if net.tape.draw("want_kind", 2) == 0:
                    net.count("spurious_want_read")
                    raise ssl.SSLWantReadError(ssl.SSL_ERROR_WANT_READ, "The operation did not complete (read)")
                net.count("spurious_want_write")
                raise ssl.SSLWantWriteError(ssl.SSL_ERROR_WANT_WRITE, "The operation did not complete (write)")

    # -- ssl.SSLSocket API used by hio
    def do_handshake(self, block=False):
        self.calls["handshake"] += 1
        if self.sock.state == "closed":
            raise OSError(errno.EBADF, "Bad file descriptor")
        self._tls_fault("handshake")
        for _ in range(64):
            try:
                self.obj.do_handshake()
            except ssl.SSLWantReadError:
                if not self._flush():
                    raise ssl.SSLWantWriteError(ssl.SSL_ERROR_WANT_WRITE, "The operation did not complete (write)")
                if not self._fill():
                    raise
                continue
            except ssl.SSLWantWriteError:
                if not self._flush():
                    raise
                continue
            self._flush()
            self.handshook = True
            return
        raise ssl.SSLWantReadError(ssl.SSL_ERROR_WANT_READ, "The operation did not complete (read)")

    def send(self, data, flags=0):
        """SSL_write semantics on a non-blocking transport: success (a byte count) is reported only once the whole
        record has been handed to the transport; until then SSLWantWriteError, and the caller must retry with the
        same bytes (OpenSSL keeps the half-written record, here .pending, and completes it on the retry).  So no
        plaintext that was reported as sent is ever still in user space when the socket is closed."""
        self.calls["send"] += 1
        if self.sock.state == "closed" or self.obj is None:
            raise OSError(errno.EBADF, "Bad file descriptor")
        self._tls_fault("send")
        if not self._flush():
            self.net.count("tls_want_write_backpressure")
            raise ssl.SSLWantWriteError(ssl.SSL_ERROR_WANT_WRITE, "The operation did not complete (write)")
        if self.retry is not None:
            # the record written by the call that raised SSLWantWriteError has now gone out completely
            chunk, self.retry = self.retry, None
            if bytes(data[:len(chunk)]) != chunk:
                raise ssl.SSLError(ssl.SSL_ERROR_SSL, "bad write retry")
            self.plain_tx.extend(chunk)
            self._stamp()
            return len(chunk)
        n = len(data)
        if n == 0:
            return 0
        k = min(n, self.MAX_RECORD)
        net = self.net
        if net.faults_on and net.rates.get("tls_partial") and net.tape.flag("tls_partial", net.rates["tls_partial"], 16):
            k = max(1, min(k, [1, 2, 7, 64, 1000, 16384][net.tape.draw("tls_partial_k", 6)]))
            if k < n:
                net.count("tls_partial_write")
        chunk = bytes(data[:k])
        w = self.obj.write(chunk)
        if not self._flush():
            self.retry = chunk[:w]
            self.net.count("tls_want_write_backpressure")
            raise ssl.SSLWantWriteError(ssl.SSL_ERROR_WANT_WRITE, "The operation did not complete (write)")
        self.plain_tx.extend(chunk[:w])
        self._stamp()
        return w

    def _stamp(self):
        tymth = getattr(self.net, "tymth", None)
        if tymth is not None:
            self.io_tymes.append(tymth())

    def recv(self, buflen=1024, flags=0):
        self.calls["recv"] += 1
        if self.sock.state == "closed" or self.obj is None:
            raise OSError(errno.EBADF, "Bad file descriptor")
        self._tls_fault("recv")
        self._flush()
        net = self.net
        want = buflen
        if net.faults_on and net.rates.get("tls_short") and net.tape.flag("tls_short", net.rates["tls_short"], 16):
            want = max(1, min(buflen, [1, 2, 7, 64, 1000][net.tape.draw("tls_short_k", 5)]))
            if want < buflen:
                net.count("tls_short_read")
        for _ in range(64):
            try:
                data = self.obj.read(want)
            except ssl.SSLWantReadError:
                if not self._fill():
                    raise
                continue
            except ssl.SSLZeroReturnError:
                return b""
            except ssl.SSLError as ex:
                if ex.args[0] == ssl.SSL_ERROR_EOF and self.suppress_ragged_eofs:
                    return b""
                raise
            self._flush()
            self.plain_rx.extend(data)
            if data:
                self._stamp()
            return data
        raise ssl.SSLWantReadError(ssl.SSL_ERROR_WANT_READ, "The operation did not complete (read)")

    def shutdown(self, how):
        self.obj = None   # as ssl.SSLSocket.shutdown does
        self.sock.shutdown(how)

    def close(self):
        self.obj = None
        self.sock.close()

    def setblocking(self, flag):
        self.sock.setblocking(flag)

    def getpeername(self):
        return self.sock.getpeername()

    def getsockname(self):
        return self.sock.getsockname()

    def getsockopt(self, *a):
        return self.sock.getsockopt(*a)

    def setsockopt(self, *a):
        return self.sock.setsockopt(*a)

    def fileno(self):
        return self.sock.fileno()

    @property
    def state(self):
        return self.sock.state
