"""
Trace oracles for the sched engine (C01, C02, C06).  They read only the trace
and what the harness itself knows (what each scripted doer did), never hio
internals.
"""
LIFE = ("enter", "recur", "clean", "cease", "abort", "exit")
FUNC_KINDS = ("doify", "doize", "method")


def node_events(run, nid):
    return [e for e in run.trace if len(e) > 1 and e[1] == nid and e[0] in LIFE]


def expected_terminal(run, nid):
    """what the statement demands as the terminal context of a started node,
    from what the harness knows the node did.  Returns (ideal, f3_variant)
    where f3_variant is the terminal hio is known to give for a
    KeyboardInterrupt raised inside the doer's own recur (finding F3), or None."""
    node = run.prog["nodes"][nid]
    st = run.st[nid]
    if node["kind"] == "dodoer":
        if st.exc_kind == "raise":
            return "abort", None
        if st.exc_kind == "kbint":
            return "abort", "none"
        if st.last_ret and not node["always"]:
            return "clean", None
        return "cease", None
    if st.outcome == "ret":
        return "clean", None
    if st.outcome == "raise":
        return "abort", None
    if st.outcome == "kbint":
        if node["kind"] in FUNC_KINDS:
            # the try/except/else/finally skeleton of a function-style doer is the
            # user's (here: the harness's copy of the documented bareDo template,
            # which catches Exception only) -- not hio's to answer for
            return "none", None
        return "abort", "none"
    return "cease", None


def check_lifecycle(run, res):
    """C01.  Appends violations / known findings to res.  Returns number of comparisons."""
    n = 0
    for nid in sorted(run.prog["nodes"]):
        st = run.st[nid]
        evs = [e[0] for e in node_events(run, nid)]
        if not evs:
            if st.entered:
                res.violate("lifecycle-missing-events", "node %d entered but has no events" % nid)
            continue
        n += 1
        want, f3 = expected_terminal(run, nid)
        # grammar: enter recur* terminal exit
        ok_shape = evs[0] == "enter" and evs[-1] == "exit" and evs.count("enter") == 1 and evs.count("exit") == 1
        mid = evs[1:-1] if ok_shape else []
        i = 0
        while i < len(mid) and mid[i] == "recur":
            i += 1
        term = mid[i:]
        if not ok_shape:
            if evs.count("exit") == 0:
                res.violate("lifecycle-no-exit", "node %d (%s) started but never exited: %s" % (
                    nid, run.prog["nodes"][nid]["kind"], evs))
            elif evs.count("exit") > 1 or evs.count("enter") > 1:
                res.violate("lifecycle-multiple", "node %d entered/exited more than once: %s" % (nid, evs))
            else:
                res.violate("lifecycle-after-exit", "node %d has events out of order: %s" % (nid, evs))
            continue
        got = "none" if not term else (term[0] if len(term) == 1 else "many")
        if got == want:
            continue
        if f3 is not None and got == f3:
            res.finding("F3", "node %d (%s): KeyboardInterrupt / SystemExit inside its own enter or recur -> exit without clean/cease/abort" % (
                nid, run.prog["nodes"][nid]["kind"]))
            continue
        res.violate("lifecycle-terminal", "node %d (%s): expected terminal %r, got %r; events %s" % (
            nid, run.prog["nodes"][nid]["kind"], want, term, evs))
    if run.alive_at_end:
        res.violate("lifecycle-alive-at-return",
                    "do() %s with doers still not exited: %s" % (run.result[0], run.alive_at_end))
    if run.late_events:
        res.violate("lifecycle-late-events", "%d events after do() returned (orphan closed by GC)" % run.late_events)
    return n


def check_forced_exits(run, res):
    """C02: per scheduler that stops with children alive: all of them exit inside the
    scheduler's own exit, in reverse enter order."""
    n = 0
    trace = run.trace
    pos_enter = {}
    pos_exit = {}
    for i, e in enumerate(trace):
        if e[0] == "enter":
            pos_enter.setdefault(e[1], i)
        elif e[0] == "exit":
            pos_exit.setdefault(e[1], i)
    # schedulers: doist (-1) and every dodoer that entered
    scheds = [-1] + [nid for nid, nd in run.prog["nodes"].items() if nd["kind"] == "dodoer" and nid in pos_enter]
    begin = {}
    for i, e in enumerate(trace):
        if e[0] == "exit_begin":
            begin.setdefault(e[1], i)
    # children of scheduler S = nodes whose runtime parent is S
    children = {}
    for nid, st in run.st.items():
        if st.parent is None:
            continue
        sid = run.sid(st.parent)
        children.setdefault(sid, []).append(nid)
    for sid in scheds:
        if sid not in begin:
            continue   # scheduler never stopped (then C01 flags what is left alive)
        b = begin[sid]
        end = pos_exit.get(sid)
        kids = children.get(sid, [])
        alive = [k for k in kids if k in pos_enter and pos_enter[k] < b and pos_exit.get(k, 1 << 60) > b]
        if not alive:
            continue
        n += 1
        if end is None:
            res.violate("forced-exit-sched-never-finished", "scheduler %d began exit but never finished it" % sid)
            continue
        not_inside = [k for k in alive if not (b < pos_exit.get(k, 1 << 60) < end)]
        if not_inside:
            res.violate("forced-exit-missing",
                        "scheduler %d stopped with %s alive; %s did not exit before it finished" % (
                            sid, alive, not_inside))
            continue
        got = sorted(alive, key=lambda k: pos_exit[k])
        want = sorted(alive, key=lambda k: -pos_enter[k])
        if got != want and got == _f4_order(run, sid, alive):
            res.finding("F4", "scheduler %d: doers added by extend() during a cycle sit before the doer that was "
                        "running; entered %s, force-exited %s" % (sid, list(reversed(want)), got))
            continue
        if got != want:
            res.violate("forced-exit-order",
                        "scheduler %d: still-alive doers entered in order %s were exited in order %s (want %s)" % (
                            sid, list(reversed(want)), got, want))
    # forced exits inside one remove() call, and of doers already entered by an extend() whose later
    # member failed in enter: also reverse enter order
    i = 0
    while i < len(trace):
        e = trace[i]
        if e[0] in ("remove_call", "extend_call"):
            caller, sid = e[1], e[2]
            closing = ("remove_return",) if e[0] == "remove_call" else ("extend_return", "extend_raise")
            j = i + 1
            while j < len(trace) and not (trace[j][0] in closing and trace[j][1] == caller and trace[j][2] == sid):
                j += 1
            if e[0] == "extend_call" and (j >= len(trace) or trace[j][0] != "extend_raise"):
                i += 1
                continue
            kids = set(children.get(sid, []))
            ceased = set(x[1] for x in trace[i + 1:j] if x[0] == "cease")      # forced exits only
            exited = [x[1] for x in trace[i + 1:j] if x[0] == "exit" and x[1] in kids and x[1] in ceased]
            if len(exited) >= 2:
                n += 1
                want = sorted(exited, key=lambda k: -pos_enter.get(k, 0))
                if exited != want:
                    if exited == _f4_order(run, sid, set(exited)):
                        res.finding("F4", "scheduler %d: doers removed in one call exited %s, entered %s" % (sid, exited, list(reversed(want))))
                    else:
                        res.violate("forced-exit-order-remove" if e[0] == "remove_call" else "forced-exit-order-extend-cleanup",
                                    "scheduler %d: doers force-exited by one %s entered in order %s were exited in order %s (want %s)" % (
                                        sid, "remove()" if e[0] == "remove_call" else "failed extend()", list(reversed(want)), exited, want))
            i = j
        i += 1
    return n


def _f4_order(run, sid, alive):
    """Exit order hio is known to produce when doers were added by extend() while the
    scheduler's cycle was in progress (finding F4): the new deeds are queued in front of the
    deed that was running at the time, so they are not the first to be force-exited later.
    Returns the predicted exit order of `alive` under exactly that quirk."""
    def parent_sid(nid):
        st = run.st[nid]
        return run.sid(st.parent) if st.parent is not None else None

    def child_of_sid_above(nid):
        # direct child of scheduler sid that is nid or an ancestor of nid
        cur = nid
        seen = 0
        while cur is not None and seen < 64:
            ps = parent_sid(cur)
            if ps == sid:
                return cur
            if ps is None or ps == -1:
                return None
            cur = ps
            seen += 1
        return None

    q = []
    batch = None
    caller = None
    for e in run.trace:
        if e[0] == "extend_call" and e[2] == sid:
            batch = []
            caller = e[1]
        elif e[0] in ("extend_return", "extend_raise") and e[2] == sid and batch is not None:
            r = child_of_sid_above(caller)
            if r is not None and r in q:
                i = q.index(r)
                q[i:i] = batch
            else:
                q.extend(batch)
            batch = None
        elif e[0] == "enter" and e[1] != -1 and parent_sid(e[1]) == sid:
            if batch is not None:
                batch.append(e[1])
            else:
                q.append(e[1])
    return [c for c in reversed(q) if c in alive]
