"""
Engine `net`: an in-process "kernel" for stream sockets (and, in dgram.py,
datagrams), installed at hio's existing seam: the module global `socket` of
hio.core.tcp.clienting / serving.

Semantics follow Linux TCP as far as hio can observe them:

* a connected pair shares two byte pipes with a capacity; send() accepts
  min(len, room) bytes minus a tape-drawn shortfall, or raises EAGAIN / an
  injected errno; accepted bytes become readable at the peer after a
  tape-drawn delay measured in net steps;
* recv(n) returns 1..min(n, available) bytes (tape) or EAGAIN; b'' after the
  peer's FIN once everything before it was read; ECONNRESET after a reset;
* close() with unread data, or data arriving for a closed socket, resets the
  connection (peer: ECONNRESET on recv, EPIPE on later sends); send() after the
  local side shut down writing raises EPIPE;
* connect_ex() to a port nobody listens on returns ECONNREFUSED; otherwise 0 or
  first EINPROGRESS (tape);
* client ports come from a tiny pool so (host, port) reuse happens.

Every decision is drawn from the case's tape through `net.tape`; every fault
that actually fires is counted in `net.faults`.
"""
import errno
import socket as _rs
import ssl as _ssl
import os

CONN_ERRNOS = [errno.ECONNRESET, errno.EPIPE, errno.ENETRESET, errno.ENETUNREACH, errno.EHOSTUNREACH,
               errno.ENETDOWN, errno.EHOSTDOWN, errno.ETIMEDOUT, errno.ECONNREFUSED]
SSL_EOF = "SSL_EOF"


def oserror(code):
    return OSError(code, os.strerror(code))


class Pipe:
    """one direction of a connection"""
    __slots__ = ("rx", "inflight", "fin_sent", "fin_ready", "cap", "total_accepted", "total_read")

    def __init__(self, cap):
        self.rx = bytearray()       # readable at the receiver
        self.inflight = []          # [ready_step, bytes | None]  (None = FIN), in order
        self.fin_sent = False
        self.fin_ready = False      # FIN has arrived at the receiver
        self.cap = cap
        self.total_accepted = 0
        self.total_read = 0

    def pending(self):
        return len(self.rx) + sum(len(d) for _s, d in self.inflight if isinstance(d, bytes))


class FakeSocket:
    _ids = 0

    def __init__(self, net, family=None, type=None, proto=0, owner=None):
        self.net = net
        self.family = family if family is not None else _rs.AF_INET
        self.type = type if type is not None else _rs.SOCK_STREAM
        self.sid = len(net.sockets)
        net.sockets.append(self)
        self.owner = net.current_owner if owner is None else owner
        self.state = "new"          # new | listening | connecting | connected | closed
        self.laddr = None
        self.raddr = None
        self.peer = None            # FakeSocket at the other end
        self.inp = None             # Pipe we read from
        self.out = None             # Pipe we write to
        self.backlog = []           # listening: pending server-side sockets
        self.wr_shut = False
        self.rd_shut = False
        self.reset = False          # connection was reset (by peer or by an injected RST)
        self.got_injected = False   # an injected errno was raised on this socket
        self.reset_seen = False
        self.blocking = True
        self.opts = {}
        self.calls = dict(send=0, recv=0)
        self.last_io_step = None    # net.now at the last byte moved in either direction
        self.io_tymes = []          # tymes (net.tymth) at which bytes moved through this socket
        self.arr_tymes = []         # tymes (net.tymth) at which bytes from the peer became readable here
        self.closed_tyme = None
        self.was_connected = False
        net.ev("socket", self.sid, self.owner)

    # -- trivial API
    def setsockopt(self, level, opt, val):
        self.opts[(level, opt)] = val

    def getsockopt(self, level, opt):
        return self.opts.get((level, opt), 1 << 22)

    def setblocking(self, flag):
        self.blocking = bool(flag)

    def settimeout(self, t):
        self.blocking = t is None

    def fileno(self):
        return -1 if self.state == "closed" else 1000 + self.sid

    def getsockname(self):
        if self.state == "closed":
            raise oserror(errno.EBADF)
        return self.laddr if self.laddr is not None else ("0.0.0.0", 0)

    def getpeername(self):
        if self.state == "closed":
            raise oserror(errno.EBADF)
        if self.raddr is None or self.state not in ("connected",) or (self.reset and self.reset_seen is not None and self.net.strict_peername):
            # Linux: once the peer's RST has arrived the socket is in CLOSE state and getpeername() fails with ENOTCONN,
            # even while data received before the RST is still readable
            raise oserror(errno.ENOTCONN)
        return self.raddr

    # -- server side
    def bind(self, addr):
        host, port = addr[0], addr[1]
        if host in ("", None):
            host = "0.0.0.0"
        if self.net.bind_fail is not None:        # one-shot injected failure of the next bind()
            code, self.net.bind_fail = self.net.bind_fail, None
            self.net.count("bind_" + errno.errorcode[code])
            raise oserror(code)
        for s in self.net.sockets:
            if s is not self and s.state == "listening" and s.laddr[1] == port:
                raise oserror(errno.EADDRINUSE)
        self.laddr = (host, port)

    def listen(self, bl=128):
        if self.laddr is None:
            self.laddr = ("0.0.0.0", self.net.next_port())
        self.state = "listening"
        self.net.ev("listen", self.sid, self.laddr[1])

    def accept(self):
        if self.state != "listening":
            raise oserror(errno.EINVAL)
        f = self.net.fault_at("accept", self)
        if f == "eagain" or not self.backlog:
            raise BlockingIOError(errno.EAGAIN, "Resource temporarily unavailable")
        s = self.backlog.pop(0)
        s.owner = self.owner
        self.net.ev("accept", self.sid, s.sid, s.raddr[1])
        return s, s.raddr

    # -- client side
    def connect_ex(self, addr):
        if self.state == "closed":
            raise oserror(errno.EBADF)
        if self.state == "connected":
            return errno.EISCONN
        host, port = addr[0], addr[1]
        lst = self.net.listener(port)
        if self.state == "connecting":
            if lst is None and self.peer is None:
                self.state = "new"
                return errno.ECONNREFUSED
            self._establish(lst, (host, port))
            return 0
        if lst is None:
            self.net.count("connect_refused")
            return errno.ECONNREFUSED
        if self.net.fault_at("connect", self) == "inprogress":
            self.state = "connecting"
            return errno.EINPROGRESS
        self._establish(lst, (host, port))
        return 0

    def connect(self, addr):
        r = self.connect_ex(addr)
        if r not in (0, errno.EISCONN):
            raise oserror(r)

    def _establish(self, lst, raddr):
        net = self.net
        if self.laddr is None or self.laddr[1] == 0:
            self.laddr = ("127.0.0.1", net.client_port(raddr[1]))
        self.raddr = ("127.0.0.1", raddr[1])
        srv = FakeSocket(net, self.family, self.type, owner=lst.owner)
        srv.laddr = ("127.0.0.1", lst.laddr[1])
        srv.raddr = self.laddr
        a2b = Pipe(net.capacity)
        b2a = Pipe(net.capacity)
        self.out, srv.inp = a2b, a2b
        srv.out, self.inp = b2a, b2a
        self.peer, srv.peer = srv, self
        self.state = srv.state = "connected"
        self.was_connected = srv.was_connected = True
        lst.backlog.append(srv)
        net.conns.append((self, srv))
        net.ev("connect", self.sid, srv.sid, self.laddr[1], raddr[1])

    # -- data
    def send(self, data, flags=0):
        net = self.net
        self.calls["send"] += 1
        if self.state == "closed":
            raise oserror(errno.EBADF)
        if self.state != "connected":
            raise oserror(errno.EPIPE if self.was_connected else errno.ENOTCONN)
        f = net.fault_at("send", self)
        if isinstance(f, int):
            net.count("errno_send_%s" % errno.errorcode.get(f, f))
            self._after_injected_errno(f)
            raise oserror(f)
        if self.wr_shut:
            raise BrokenPipeError(errno.EPIPE, "Broken pipe")
        if self.reset:
            if not self.reset_seen:
                self.reset_seen = True
                raise ConnectionResetError(errno.ECONNRESET, "Connection reset by peer")
            raise BrokenPipeError(errno.EPIPE, "Broken pipe")
        n = len(data)
        if n == 0:
            return 0
        if f == "eagain":
            net.count("send_eagain")
            raise BlockingIOError(errno.EAGAIN, "Resource temporarily unavailable")
        peer = self.peer
        if peer.state == "closed" or peer.rd_shut:
            # data for a closed socket: the segment is accepted here and answered with RST, which
            # travels back behind whatever the peer had sent before it closed
            self._rst_behind_inflight()
            net.count("rst_by_data_to_closed_peer")
            net.ev("send", self.sid, n, n, "to-closed")
            self.out.total_accepted += n
            return n
        room = self.out.cap - self.out.pending()
        if room <= 0:
            net.count("send_full")
            raise BlockingIOError(errno.EAGAIN, "Resource temporarily unavailable")
        k = min(n, room)
        if isinstance(f, tuple) and f[0] == "partial" and k > 1:
            k2 = max(1, min(k - 1, f[1] if f[1] >= 1 else 1))
            net.count("send_partial")
            k = k2
        elif k < n:
            net.count("send_partial_by_capacity")
        chunk = bytes(data[:k])
        delay = net.draw_delay()
        ready = net.now + delay
        if self.out.inflight and self.out.inflight[-1][0] > ready:
            ready = self.out.inflight[-1][0]   # a byte stream never reorders
        self.out.inflight.append([ready, chunk])
        self.out.total_accepted += k
        self.last_io_step = net.now
        if net.tymth is not None:
            self.io_tymes.append(net.tymth())
        net.note_io(self, "tx", chunk)
        net.ev("send", self.sid, n, k, delay)
        return k

    def sendall(self, data, flags=0):
        raise oserror(errno.EOPNOTSUPP)

    def recv(self, bufsize, flags=0):
        net = self.net
        self.calls["recv"] += 1
        if self.state == "closed":
            raise oserror(errno.EBADF)
        if self.state != "connected":
            raise oserror(errno.ENOTCONN)
        f = net.fault_at("recv", self)
        if isinstance(f, int):
            net.count("errno_recv_%s" % errno.errorcode.get(f, f))
            self._after_injected_errno(f)
            raise oserror(f)
        if self.rd_shut:
            return b""
        if f == "eagain":
            net.count("recv_eagain")
            raise BlockingIOError(errno.EAGAIN, "Resource temporarily unavailable")
        if self.inp.rx:
            k = min(bufsize, len(self.inp.rx))
            if isinstance(f, tuple) and f[0] == "short" and k > 1:
                k = max(1, min(k - 1, f[1] if f[1] >= 1 else 1))
                net.count("recv_short")
            data = bytes(self.inp.rx[:k])
            del self.inp.rx[:k]
            self.inp.total_read += k
            self.last_io_step = net.now
            if net.tymth is not None:
                self.io_tymes.append(net.tymth())
            net.note_io(self, "rx", data)
            net.ev("recv", self.sid, bufsize, k)
            return data
        if self.reset:
            self.reset_seen = True
            net.count("recv_econnreset")
            raise ConnectionResetError(errno.ECONNRESET, "Connection reset by peer")
        if self.inp.fin_ready:
            net.count("recv_eof")
            net.ev("recv", self.sid, bufsize, "eof")
            return b""
        raise BlockingIOError(errno.EAGAIN, "Resource temporarily unavailable")

    def _after_injected_errno(self, code):
        """an injected connection-level errno means the connection is really gone -- unless the case asked for a
        one-shot error (net.errno_one_shot): the call fails once and the socket stays usable, as after a transient
        routing error; then only the endpoint's own reaction to that one call can mark the connection"""
        self.got_injected = True
        if self.net.errno_one_shot:
            return
        if code in (errno.ECONNRESET, errno.EPIPE, errno.ENETRESET, errno.ETIMEDOUT, errno.ECONNREFUSED,
                    errno.ENETUNREACH, errno.EHOSTUNREACH, errno.ENETDOWN, errno.EHOSTDOWN):
            self.reset = True
            self.reset_seen = True
            if self.peer is not None and self.peer.state == "connected":
                self.peer.reset = True

    def shutdown(self, how):
        if self.state == "closed":
            raise oserror(errno.EBADF)
        if self.state != "connected" or self.reset:
            # Linux: a connection the peer has reset is gone; shutdown() on it fails with ENOTCONN (close() still works)
            raise oserror(errno.ENOTCONN)
        if how in (_rs.SHUT_WR, _rs.SHUT_RDWR):
            self._send_fin()
        if how in (_rs.SHUT_RD, _rs.SHUT_RDWR):
            self.rd_shut = True
        self.net.ev("shutdown", self.sid, how)

    def _send_fin(self):
        if not self.wr_shut and self.out is not None:
            self.wr_shut = True
            if not self.out.fin_sent:
                self.out.fin_sent = True
                ready = self.net.now + self.net.draw_delay()
                if self.out.inflight and self.out.inflight[-1][0] > ready:
                    ready = self.out.inflight[-1][0]
                self.out.inflight.append([ready, None])

    def close(self):
        if self.state == "closed":
            return
        net = self.net
        if self.state == "listening":
            for s in self.backlog:      # never accepted: the kernel frees them and resets the clients
                s.state = "closed"
                if s.peer is not None:
                    s.peer.reset_by_peer()
            self.backlog = []
        elif self.state == "connected":
            unread = len(self.inp.rx) > 0
            if unread and self.peer.state == "connected":
                # Linux: close() with unread data sends RST
                self.peer.reset_by_peer()
                net.count("rst_by_close_with_unread")
            else:
                self._send_fin()
        self.state = "closed"
        if net.tymth is not None:
            self.closed_tyme = net.tymth()
        net.ev("close", self.sid)

    def detach(self):
        return self.fileno()

    def _rst_behind_inflight(self):
        """a RST for this socket is queued behind the data still in flight towards it"""
        p = self.inp
        if p is None or not p.inflight:
            self.reset = True
            return
        p.inflight.append([p.inflight[-1][0], "RST"])

    def reset_by_peer(self):
        self.reset = True
        if self.out is not None:
            self.out.inflight = []

    def __repr__(self):
        return "<FakeSocket %d %s %s->%s>" % (self.sid, self.state, self.laddr, self.raddr)


class SocketModule:
    """what hio sees as `socket`"""

    def __init__(self, net):
        self._net = net

    def socket(self, family=None, type=None, proto=0, fileno=None):
        return FakeSocket(self._net, family, type, proto)

    def __getattr__(self, name):
        return getattr(_rs, name)


class SimNet:
    def __init__(self, tape, capacity=1 << 16, rates=None, res=None, ports=(50001, 50002)):
        self.tape = tape
        self.capacity = capacity
        self.sockets = []
        self.conns = []
        self.now = 0
        self.events = []
        self.res = res
        self.rates = dict(partial=0, send_eagain=0, short=0, recv_eagain=0, delay=0, accept_eagain=0, inprogress=0)
        if rates:
            self.rates.update(rates)
        self.faults_on = True
        self.errno_plan = {}        # (op, owner) -> [call_index, errno]  one-shot injected errnos
        self.bind_fail = None       # errno for the next bind(), one-shot
        self.errno_one_shot = False # injected errnos do not reset the connection
        self.fresh_ports = False    # client ports are never reused
        self.strict_peername = True   # getpeername() on a reset connection fails (ENOTCONN) as on Linux
        self.current_owner = None
        self.ports = list(ports)
        self._port_next = 0
        self._lport = 56000
        self.module = SocketModule(self)
        self.io_log = {}            # sid -> dict(tx=bytearray, rx=bytearray)
        self.tymth = None           # optional: virtual time source used to stamp traffic
        self.op_calls = {}

    # -- bookkeeping
    def ev(self, *e):
        self.events.append((self.now,) + e)

    def count(self, name):
        if self.res is not None:
            self.res.faults[name] += 1

    def note_io(self, sock, direction, data):
        d = self.io_log.setdefault(sock.sid, dict(tx=bytearray(), rx=bytearray()))
        d[direction].extend(data)

    def next_port(self):
        self._lport += 1
        return self._lport

    def client_port(self, rport):
        """smallest pool port not in use by a still-open client socket to that server port"""
        used = set()
        for s in self.sockets:
            if s.state == "connected" and s.raddr is not None and s.raddr[1] == rport and s.laddr is not None:
                used.add(s.laddr[1])
        if self.fresh_ports:      # never hand out a port a closed socket had (no address reuse in this run)
            used |= set(t.laddr[1] for t in self.sockets if t.laddr)
        for p in self.ports:
            if p not in used:
                if any(t.laddr and t.laddr[1] == p and t.state == "closed" for t in self.sockets):
                    self.count("client_port_reused")
                return p
        p = 51000 + len(self.sockets)
        return p

    def listener(self, port):
        for s in self.sockets:
            if s.state == "listening" and s.laddr[1] == port:
                return s
        return None

    def open_sockets(self, owner=None):
        return [s for s in self.sockets if s.state != "closed" and (owner is None or s.owner == owner)]

    # -- tape driven decisions
    def draw_delay(self):
        r = self.rates["delay"]
        if not self.faults_on or not r:
            return 0
        if self.tape.flag("delay", r, 16):
            self.count("delivery_delay")
            return 1 + self.tape.draw("delay_steps", 4)
        return 0

    def fault_at(self, op, sock):
        """decide what (if anything) goes wrong at this call"""
        key = (op, sock.owner)
        n = self.op_calls.get(key, 0)
        self.op_calls[key] = n + 1
        plan = self.errno_plan.get(key)
        if plan is not None and plan[0] == n:
            del self.errno_plan[key]
            return plan[1]
        if not self.faults_on:
            return None
        t = self.tape
        if op == "send":
            if self.rates["send_eagain"] and t.flag("send_eagain", self.rates["send_eagain"], 16):
                return "eagain"
            if self.rates["partial"] and t.flag("partial", self.rates["partial"], 16):
                return ("partial", [1, 2, 7, 64, 1000, 5000][t.draw("partial_k", 6)])
        elif op == "recv":
            if self.rates["recv_eagain"] and t.flag("recv_eagain", self.rates["recv_eagain"], 16):
                return "eagain"
            if self.rates["short"] and t.flag("short", self.rates["short"], 16):
                return ("short", [1, 2, 7, 64, 1000, 5000][t.draw("short_k", 6)])
        elif op == "accept":
            if self.rates["accept_eagain"] and t.flag("accept_eagain", self.rates["accept_eagain"], 16):
                self.count("accept_eagain")
                return "eagain"
        elif op == "connect":
            if self.rates["inprogress"] and t.flag("inprogress", self.rates["inprogress"], 16):
                self.count("connect_inprogress")
                return "inprogress"
        return None

    # -- time
    def step(self):
        """one net step: deliver what is due"""
        self.now += 1
        moved = 0
        for a, b in self.conns:
            for snd, rcv in ((a, b), (b, a)):
                p = snd.out
                while p.inflight and p.inflight[0][0] <= self.now:
                    _r, d = p.inflight.pop(0)
                    if d is None:
                        p.fin_ready = True
                        moved += 1
                    elif d == "RST":
                        rcv.reset = True
                        moved += 1
                    elif rcv.state == "closed" or rcv.rd_shut:
                        # data arriving for a closed socket -> RST back, behind what is in flight
                        if snd.state == "connected":
                            snd._rst_behind_inflight()
                            self.count("rst_by_data_to_closed_peer")
                    else:
                        p.rx.extend(d)
                        moved += 1
                        if d and self.tymth is not None:
                            rcv.arr_tymes.append(self.tymth())
        return moved

    def quiet(self):
        return not any(s.out is not None and s.out.inflight for s in self.sockets)

    def rst(self, sock):
        """the peer of `sock` vanishes with a reset"""
        sock.reset_by_peer()
        if sock.peer is not None:
            sock.peer.state = "closed"
        self.count("peer_rst")


class Resolver:
    """what hio.core.coring sees as `socket`: the real module with name resolution replaced by a fixed table (numeric
    addresses and `localhost` resolve, every other name fails the way an unknown name does), so that no run depends on the
    machine's resolver configuration or network"""
    NAMES = {"localhost": "127.0.0.1"}

    def __init__(self):
        import socket as real
        self._real = real

    def __getattr__(self, name):
        return getattr(self._real, name)

    def getaddrinfo(self, host, port, family=0, type=0, proto=0, flags=0):
        import ipaddress
        real = self._real
        if isinstance(host, (bytes, bytearray)):
            host = bytes(host).decode("ascii", "strict")
        if isinstance(host, str) and host:
            host.encode("idna")      # the real call refuses empty / over-long labels with UnicodeError before it resolves
        name = self.NAMES.get(host, host)
        try:
            ip = ipaddress.ip_address(name)
        except ValueError:
            raise real.gaierror(real.EAI_NONAME, "Name or service not known (%r)" % (host,))
        if family == real.AF_INET6 and ip.version != 6:
            raise real.gaierror(real.EAI_ADDRFAMILY, "Address family for hostname not supported")
        if family == real.AF_INET and ip.version != 4:
            raise real.gaierror(real.EAI_ADDRFAMILY, "Address family for hostname not supported")
        fam = real.AF_INET if ip.version == 4 else real.AF_INET6
        addr = (str(ip), port or 0) if ip.version == 4 else (str(ip), port or 0, 0, 0)
        return [(fam, type or real.SOCK_STREAM, proto or 0, "", addr)]


class net_installed:
    def __init__(self, net):
        self.net = net

    def __enter__(self):
        from hio.core.tcp import clienting, serving
        from hio.core import coring
        self.mods = (clienting, serving)
        self.saved = [m.socket for m in self.mods]
        for m in self.mods:
            m.socket = self.net.module
        self.coring = coring
        self.saved_resolver = coring.socket
        coring.socket = Resolver()
        return self.net

    def __exit__(self, *a):
        for m, s in zip(self.mods, self.saved):
            m.socket = s
        self.coring.socket = self.saved_resolver
        return False
