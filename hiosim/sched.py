"""
Engine `sched`: generated doer forests run by hio's real Doist / DoDoer.

A *program* (plain json-able dict) is a Doist configuration plus a table of
nodes.  Every node has a kind (one of hio's six ways of making a doer), an
enter action and a script of steps; a step says what the doer does when it is
woken (continue / return / raise / KeyboardInterrupt / extend / remove) and
what tock it yields afterwards.  The engine builds real hio objects from the
program, runs them with the real scheduler (blocking do(), or ado() under the
virtual asyncio loop) and records a trace.  Oracles live in the check modules
and in models/schedmodel.py.
"""
from .core import CaseTimeout as _CaseTimeout
import gc
from collections import deque

from . import tree
from .core import HarnessError, digest

tree.load()
from hio.base import doing, tyming          # noqa: E402
from hio.help import timing as htiming      # noqa: E402
import time as _realtime                    # noqa: E402

tree.assert_tree_module(doing)

KINDS = ("doer", "gendoer", "doify", "doize", "method", "dodoer")
LEAF_KINDS = KINDS[:5]


class SimFault(Exception):
    """the exception scripted doers raise"""


class Runaway(BaseException):
    """the run exceeded the cycle cap: every generated program terminates by construction
    (finite scripts, or a limit), so this only happens when the scheduler under test is broken"""


# --------------------------------------------------------------------------
# clock seam (doing.time / timing.time are module globals)
# --------------------------------------------------------------------------
class SimClock:
    """Replacement for the `time` module object inside hio.base.doing and
    hio.help.timing.  Keeps *true* elapsed time and a wall offset, so stalls,
    sleep overshoot and backward wall-clock steps are separate knobs."""

    def __init__(self, wall0=1000.0):
        self.true = 0.0          # true elapsed seconds
        self.offset = wall0      # wall = true + offset
        self.sleeps = 0
        self.on_sleep = None     # callable(clock, duration, index) -> extra seconds or raises
        self.on_time = None      # callable(clock) called before every wall read
        self.reads = 0

    def time(self):
        self.reads += 1
        if self.on_time is not None:
            self.on_time(self)
        return self.true + self.offset

    def monotonic(self):
        return self.true

    def sleep(self, d):
        i = self.sleeps
        self.sleeps += 1
        extra = 0.0
        if self.on_sleep is not None:
            extra = self.on_sleep(self, d, i) or 0.0
        self.true += max(0.0, d) + extra

    def __getattr__(self, name):
        return getattr(_realtime, name)


class clock_installed:
    """context manager installing a SimClock at both seams"""

    def __init__(self, clock):
        self.clock = clock

    def __enter__(self):
        self.saved = (doing.time, htiming.time)
        doing.time = self.clock
        htiming.time = self.clock
        return self.clock

    def __exit__(self, *a):
        doing.time, htiming.time = self.saved
        return False


# --------------------------------------------------------------------------
# program generation
# --------------------------------------------------------------------------
def default_feat():
    return dict(
        T=[1.0, 0.25, 0.03125, 0.5, 0.1, 1.0 / 3.0],
        t0=[0.0, 1.5, 8.0, 100.1],
        kinds=list(KINDS),
        max_roots=3, max_nodes=8, max_depth=3, max_children=3, max_steps=5,
        dodoer_tock="any",          # 'zero' | 'any'
        always=True,                # DoDoer(always=True) allowed
        acts=dict(cont=6, ret=2, raise_=1, kbint=0, extend=0, remove=0, forever=1),
        enter=dict(ok=12, raise_=1, ret=1),
        limit=True, limit_prob=(1, 2),
        real=False, kbint_sleep=False,
        retvals=[True, False, None],
        max_spares=2,
        nondyadic=True,
        targets="alive",            # 'stack' | 'alive' : who extend/remove may be called on
    )


def _yield_choices(T, feat):
    if not T:
        # a scheduler whose tock is 0.0 runs everything as soon as possible and its tyme stands still: a doer that asked for
        # a later tyme would never run again
        return [0.0, None]
    ys = [0.0, None, T, 2 * T, T / 2, 3 * T]
    if feat.get("nondyadic", True):
        ys += [T / 3, 0.1, 1.5 * T + 0.01]
    return ys


def gen_program(tape, feat):
    T = tape.pick("T", feat["T"])
    t0 = tape.pick("t0", feat["t0"])
    limit = None
    if feat["limit"] and tape.flag("has_limit", *feat["limit_prob"]):
        k = 1 + tape.draw("limit_k", 12)
        adj = tape.pick("limit_adj", [0.0, T / 3, -T / 3, T / 2])
        limit = max(T / 4, k * T + adj)
        if not T:
            limit = None   # tyme stands still: a limit would never be reached
    real = bool(feat["real"] and tape.flag("real", 1, 2))
    ys = _yield_choices(T, feat)
    nodes = {}
    budget = [feat["max_nodes"]]
    spare_roots = []

    acts = feat["acts"]
    act_names = [a for a in ("cont", "ret", "raise_", "kbint", "extend", "remove", "forever") if acts.get(a)]
    act_w = [acts[a] for a in act_names]

    def gen_steps(kind, nid):
        steps = []
        n = tape.draw("nsteps", feat["max_steps"] + 1)
        for _ in range(n):
            a = act_names[tape.weighted("act", act_w)]
            if a == "forever" and limit is None:
                a = "cont"
            y = tape.pick("y", ys)
            if kind == "doer" and y is None:
                y = 0.0
            st = dict(act=a.rstrip("_"), y=y)
            if a == "ret":
                st["val"] = True if kind == "doer" else tape.pick("retval", feat["retvals"])
            elif a in ("extend", "remove"):
                st["target"] = tape.pick("target", ["parent", "doist", "up2", "any"])
                st["tsel"] = tape.draw("tsel", 8)
                if a == "extend":
                    fresh = []
                    nf = tape.draw("nfresh", 3) if len(spare_roots) < feat["max_spares"] * 4 else 0
                    for _j in range(nf):
                        if budget[0] <= 0:
                            break
                        sid = gen_node(feat["max_depth"] - 1, spare=True)
                        spare_roots.append(sid)
                        fresh.append(sid)
                    st["fresh"] = fresh
                    st["present"] = [tape.draw("present_ix", 8) for _j in range(tape.geometric("npresent", 2, 1, 3))]
                    st["mix"] = tape.draw("mix", 2)   # present doers before (0) or after (1) fresh ones
                else:
                    st["self"] = tape.flag("rm_self", 1, 5)
                    st["ixs"] = [tape.draw("rm_ix", 8) for _j in range(tape.geometric("nrm", 3, 1, 2))]
                    st["stranger"] = tape.flag("rm_stranger", 1, 8)
                # "spawn the workers and return" / "reap the sibling and return": the call and the caller's own completion
                # fall in the same pass of the scheduler
                st["then_ret"] = tape.flag("then_ret", 1, 4)
                # the same doer named twice in one call (the quantifier's "duplicates")
                st["dup"] = bool(feat.get("dup_args")) and tape.flag("dup_arg", 1, 6)
            steps.append(st)
            if a in ("ret", "raise_", "kbint", "forever") or st.get("then_ret"):
                break
        return steps

    def gen_node(depth, spare=False):
        nid = len(nodes)
        budget[0] -= 1
        kinds = feat["kinds"]
        if depth <= 0 or budget[0] <= 0:
            kinds = [k for k in kinds if k != "dodoer"] or kinds
        kind = tape.pick("kind", kinds)
        node = dict(id=nid, kind=kind)
        nodes[nid] = node
        if kind == "dodoer":
            if feat["dodoer_tock"] == "zero":
                node["tock"] = 0.0
            else:
                node["tock"] = tape.pick("dd_tock", [0.0, T, 2 * T, T / 2])
            node["always"] = bool(feat["always"] and limit is not None and tape.flag("always", 1, 6))
            node["enter"] = "ok"
            node["steps"] = []
            node["children"] = []
            nch = tape.draw("nchildren", feat["max_children"] + 1)
            for _ in range(nch):
                if budget[0] <= 0:
                    break
                node["children"].append(gen_node(depth - 1))
        else:
            node["tock"] = tape.pick("tock", [0.0] + [y for y in ys if y])
            ew = feat["enter"]
            names = [a for a in ("ok", "raise_", "ret", "kbint", "sysexit") if ew.get(a)]
            e = names[tape.weighted("enter", [ew[a] for a in names])].rstrip("_")
            node["enter"] = e
            if e == "ret":
                node["enter_val"] = True if kind == "doer" else tape.pick("retval", feat["retvals"])
            node["steps"] = gen_steps(kind, nid) if e == "ok" else []
            if feat.get("exit_touch") and tape.flag("exit_touch", 1, 8):
                node["exit_touch"] = tape.pick("exit_touch_how", ["remove_none", "extend_none"])
        return nid

    nroots = 1 + tape.draw("nroots", feat["max_roots"])
    roots = []
    for _ in range(nroots):
        if budget[0] <= 0:
            break
        roots.append(gen_node(feat["max_depth"]))
    prog = dict(T=T, t0=t0, limit=limit, real=real, nodes=nodes, roots=roots,
                spares=spare_roots, kbint_sleep=None)
    # how the run is configured: at construction, or through the arguments of do()/ado()
    # (drawn last so that older replay files keep their meaning)
    if feat.get("via_args", True):
        prog["args"] = dict(doers=tape.flag("arg_doers", 1, 3), limit=tape.flag("arg_limit", 1, 3),
                            tyme=tape.flag("arg_tyme", 1, 3), ctor_tyme=tape.pick("ctor_tyme", [0.0, 3.0, 50.5]),
                            ctor_limit=tape.pick("ctor_limit", [None, 1000.0, 0.5]))
    if real and feat.get("kbint_sleep") and tape.flag("kbint_sleep", 1, 2):
        prog["kbint_sleep"] = tape.draw("kbint_sleep_ix", 6)
    if feat.get("prior_run") and tape.flag("prior_run", 1, 4):
        # history: the same doer objects already ran for a few cycles, under this scheduler or under another one with a
        # different tyme, and were cut off by a limit; the measured run must not see anything of it
        prog["prior"] = dict(same=tape.flag("prior_same_doist", 1, 2), tyme=tape.pick("prior_tyme", [50.0, 0.0, 3.25]),
                             cycles=1 + tape.draw("prior_cycles", 4))
        # how the earlier run ended: cut off by its limit (between cycles), or by a doer of that run raising in the middle of a
        # cycle (the caller caught it and uses the scheduler again)
        prog["prior"]["end"] = tape.pick("prior_end", ["limit", "limit", "raise"])
        prog["prior"]["bomb_at"] = tape.draw("prior_bomb_at", 4)
    if feat.get("ctor_lists") and tape.flag("ctor_lists", 1, 4):
        prog["ctor_lists"] = True
    if feat.get("manual_step") and not real and not prog.get("prior") and tape.flag("manual_step", 1, 8):
        prog["manual"] = True
        # (extend()/remove() work on the scheduler's own deque, not on one the caller holds: not combined with a stepped run)
        for nd in nodes.values():
            for stp in nd.get("steps", []):
                if stp["act"] in ("extend", "remove"):
                    stp["act"] = "cont"
                    stp["y"] = stp.get("y", 0.0)
            nd.pop("exit_touch", None)
    if feat.get("allow_empty") and prog.get("args", {}).get("doers") and tape.flag("empty_doers", 1, 6):
        # do(doers=[]) on a scheduler that still holds the doers of an earlier use: the run is over the empty set
        prog["stale"] = prog["roots"]
        prog["roots"] = []
    return prog


def prog_readable(prog):
    """compact json-able rendering for samples / replay files"""
    def node(n):
        d = dict(id=n["id"], kind=n["kind"], tock=n["tock"])
        if n["kind"] == "dodoer":
            d["always"] = n["always"]
            d["children"] = n["children"]
        else:
            d["enter"] = n["enter"] if n["enter"] != "ret" else "ret:%r" % (n.get("enter_val"),)
            d["steps"] = n["steps"]
            if n.get("exit_touch"):
                d["exit_touch"] = n["exit_touch"]
        return d
    return dict(doist=dict(tock=prog["T"], tyme=prog["t0"], limit=prog["limit"], real=prog["real"],
                           kbint_sleep=prog.get("kbint_sleep"), via_args=prog.get("args")),
                roots=prog["roots"], spares=prog["spares"], stale=prog.get("stale", []), prior=prog.get("prior"),
                nodes=[node(prog["nodes"][k]) for k in sorted(prog["nodes"])])


# --------------------------------------------------------------------------
# building real hio doers from a program
# --------------------------------------------------------------------------
class NodeState:
    __slots__ = ("k", "entered", "exited", "outcome", "parent", "last_ret", "exc_kind", "obj")

    def __init__(self):
        self.k = 0
        self.entered = 0
        self.exited = 0
        self.outcome = None     # 'ret' | 'raise' | 'kbint' (what the doer itself did)
        self.parent = None      # scheduler object that entered it
        self.last_ret = None
        self.exc_kind = None
        self.obj = None


class Run:
    """one execution of a program"""

    def __init__(self, prog, res=None):
        self.prog = prog
        self.trace = []
        self.st = {nid: NodeState() for nid in prog["nodes"]}
        self.objs = {}
        self.doist = None
        self.cycles = 0
        self.faults = res.faults if res is not None else None
        self.sealed = False
        self.late_events = 0
        self.result = None        # ('return',) | ('raise', typename, repr)
        self.doers_snapshots = []  # (where, [ids]) after every cycle / call, for C06
        self.alive_at_end = None
        self.max_cycles = 400
        self.runaway = False
        self.muted = False        # True during a prior run (history): nothing is recorded
        self.rosters = {}         # id(scheduler) -> the list object its doers were handed over in at construction

    # -- trace
    def ev(self, *e):
        if self.muted:
            return
        if self.sealed:
            self.late_events += 1
            return
        self.trace.append(e)

    def fault(self, name):
        if self.faults is not None and not self.muted:
            self.faults[name] += 1

    def sid(self, sched):
        """id of a scheduler object for the trace: -1 for the doist"""
        if sched is self.doist:
            return -1
        return sched._nid

    def ids_of(self, doers):
        out = []
        for d in doers:
            out.append(getattr(d, "_nid", None) if not hasattr(d, "__func__") else d.__func__._nid)
        return out

    def alive_sched(self, nid):
        st = self.st[nid]
        return st.entered > st.exited


def _resolve_target(run, nid, step):
    """which scheduler a step's extend/remove goes to; always one that is alive"""
    st = run.st[nid]
    parent = st.parent if st.parent is not None else run.doist
    tgt = step["target"]
    if tgt == "parent":
        return parent
    if tgt == "doist":
        return run.doist
    if tgt == "up2":
        if parent is run.doist:
            return parent
        pst = run.st[parent._nid]
        return pst.parent if pst.parent is not None else run.doist
    # any alive DoDoer (or the doist), chosen by tsel among alive ones in id order
    if run.prog.get("targets", "alive") == "stack":
        chain = [parent]
        while chain[-1] is not run.doist:
            pst = run.st[chain[-1]._nid]
            chain.append(pst.parent if pst.parent is not None else run.doist)
        return chain[step["tsel"] % len(chain)]
    cands = [run.doist] + [run.objs[i] for i in sorted(run.objs)
                           if run.prog["nodes"][i]["kind"] == "dodoer" and run.alive_sched(i)]
    return cands[step["tsel"] % len(cands)]


def _wake(run, nid, tyme):
    """behaviour of a leaf node when woken: returns ('yield', y) or ('ret', val); may raise"""
    node = run.prog["nodes"][nid]
    st = run.st[nid]
    k = st.k
    st.k += 1
    steps = node["steps"]
    if k >= len(steps):
        st.outcome = "ret"
        return ("ret", True)
    step = steps[k]
    act = step["act"]
    if act == "cont":
        return ("yield", step["y"])
    if act == "forever":
        st.k = k  # stay on this step
        return ("yield", step["y"])
    if act == "ret":
        st.outcome = "ret"
        return ("ret", step["val"])
    if act == "raise":
        st.outcome = "raise"
        run.fault("doer_raise_in_recur")
        run.ev("raise", nid)
        raise SimFault("node%d" % nid)
    if act == "kbint":
        st.outcome = "kbint"
        run.fault("kbint_in_recur")
        run.ev("kbint", nid)
        raise KeyboardInterrupt()
    if act == "extend":
        sched = _resolve_target(run, nid, step)
        fresh = [i for i in step["fresh"] if run.st[i].entered == 0 and run.st[i].parent is None]
        present = []
        cur = list(sched.doers)
        for ix in step["present"]:
            if cur:
                d = cur[ix % len(cur)]
                if hasattr(d, "__func__") and (ix // 8 + len(present)) % 2 == 0:
                    # a bound-method doer fetched again is a new object that compares equal to the one already scheduled
                    import types
                    d = types.MethodType(d.__func__, d.__self__)
                    run.fault("extend_equal_but_not_identical_method")
                present.append(d)
        objs = [run.objs[i] for i in fresh]
        for i in fresh:
            _set_parent(run, i, sched)
        arg = (present + objs) if step["mix"] == 0 else (objs + present)
        if step.get("dup") and objs:
            arg = arg + [objs[0]]
            run.fault("extend_names_a_new_doer_twice")
        run.fault("extend")
        if present:
            run.fault("extend_already_present")
        roster = run.rosters.get(id(sched))
        if roster is not None:
            for o in objs:
                if o not in roster:
                    roster.append(o)       # the caller's own bookkeeping, then the call
        run.ev("extend_call", nid, run.sid(sched), run.ids_of(arg), run.ids_of(sched.doers))
        try:
            sched.extend(arg)
        except _CaseTimeout:
            raise
        except BaseException as ex:
            st.outcome = "kbint" if isinstance(ex, (KeyboardInterrupt, SystemExit)) else "raise"
            run.ev("extend_raise", nid, run.sid(sched), type(ex).__name__)
            raise
        run.ev("extend_return", nid, run.sid(sched), run.ids_of(sched.doers))
        if step.get("then_ret"):
            run.fault("extend_then_return_in_same_pass")
            st.outcome = "ret"
            return ("ret", True)
        return ("yield", step["y"])
    if act == "remove":
        sched = _resolve_target(run, nid, step)
        cur = list(sched.doers)
        arg = []
        for ix in step["ixs"]:
            if cur:
                d = cur[ix % len(cur)]
                if d not in arg:
                    arg.append(d)
        me = run.objs[nid]
        if step["self"] and me not in arg:
            arg.append(me)
        if step["stranger"]:
            # a doer that is not a member of that scheduler: one that removed itself earlier and is still running under it
            # (remove() goes by membership: it must leave that one alone), else a never started spare, if any
            for i, o in sorted(run.objs.items()):
                sti = run.st[i]
                if sti.parent is sched and sti.entered > sti.exited and o not in cur and o not in arg and o is not me:
                    arg.append(o)
                    run.fault("remove_of_running_non_member")
                    break
            for i in run.prog["spares"]:
                if run.st[i].entered == 0 and run.st[i].parent is None and run.objs[i] not in arg:
                    arg.append(run.objs[i])
                    break
        if step.get("dup") and arg:
            arg = arg + [arg[0]]
            run.fault("remove_names_a_doer_twice")
        run.fault("remove")
        if me in arg:
            run.fault("remove_self")
        roster = run.rosters.get(id(sched))
        if roster is not None:
            for o in arg:
                if o in roster:
                    roster.remove(o)       # the caller's own bookkeeping, then the call
        run.ev("remove_call", nid, run.sid(sched), run.ids_of(arg), run.ids_of(sched.doers))
        sched.remove(arg)
        run.ev("remove_return", nid, run.sid(sched), run.ids_of(sched.doers))
        if step.get("then_ret"):
            run.fault("remove_then_return_in_same_pass")
            st.outcome = "ret"
            return ("ret", True)
        return ("yield", step["y"])
    raise HarnessError("unknown act %r" % (act,))


def _set_parent(run, nid, sched):
    run.st[nid].parent = sched


def _on_enter(run, nid):
    """enter action of a leaf: returns None (ok) or ('ret', val); may raise"""
    node = run.prog["nodes"][nid]
    st = run.st[nid]
    e = node["enter"]
    if e == "raise":
        st.outcome = "raise"
        run.fault("doer_raise_in_enter")
        run.ev("raise", nid)
        raise SimFault("enter%d" % nid)
    if e == "kbint":
        st.outcome = "kbint"
        run.fault("kbint_in_enter")
        run.ev("kbint", nid)
        raise KeyboardInterrupt()
    if e == "sysexit":
        # SystemExit: like KeyboardInterrupt not an Exception subclass, but Doist.do lets it propagate out of the run
        st.outcome = "kbint"
        run.fault("sysexit_in_enter")
        run.ev("kbint", nid)
        raise SystemExit("enter%d" % nid)
    if e == "ret":
        st.outcome = "ret"
        run.fault("return_in_enter")
        return ("ret", node["enter_val"])
    return None


def _exit_touch(run, nid):
    """a doer's exit context may use its scheduler (here: calls that change nothing): while the scheduler is shutting
    down, force-closing or removing, such a call must not upset it"""
    how = run.prog["nodes"][nid].get("exit_touch")
    if not how:
        return
    st = run.st[nid]
    sched = st.parent if st.parent is not None else run.doist
    if sched is None:
        return
    run.fault("exit_context_calls_scheduler")
    if how == "remove_none":
        sched.remove([])
    else:
        sched.extend([])


def _make_genfunc(run, nid):
    """generator function following hio's documented bareDo template"""
    def gf(tymth, tock=0.0, *, temp=None, **opts):
        done = None
        st = run.st[nid]
        try:
            st.entered += 1
            run.ev("enter", nid, tymth())
            r = _on_enter(run, nid)
            if r is None:
                y = tock
                while True:
                    tyme = (yield y)
                    run.ev("recur", nid, tyme, tymth())
                    r = _wake(run, nid, tyme)
                    if r[0] == "ret":
                        done = r[1]
                        break
                    y = r[1]
            else:
                done = r[1]
        except GeneratorExit:
            run.ev("cease", nid)
        except Exception as ex:
            run.ev("abort", nid, type(ex).__name__)
            raise ex
        else:
            run.ev("clean", nid)
        finally:
            st.exited += 1
            run.ev("exit", nid)
            _exit_touch(run, nid)
        return done
    return gf


def build(prog, res=None):
    run = Run(prog, res)

    class TDoer(doing.Doer):
        def __init__(s, nid, **kwa):
            super().__init__(**kwa)
            s._nid = nid

        def enter(s, *, temp=None):
            run.st[s._nid].entered += 1
            run.ev("enter", s._nid, s.tyme)
            r = _on_enter(run, s._nid)
            if r is not None:
                s.done = r[1]

        def recur(s, tyme):
            run.ev("recur", s._nid, tyme, s.tyme)
            r = _wake(run, s._nid, tyme)
            if r[0] == "ret":
                return r[1]
            s.tock = r[1] if r[1] is not None else 0.0
            return False

        def clean(s):
            run.ev("clean", s._nid)

        def cease(s):
            run.ev("cease", s._nid)

        def abort(s, ex):
            run.ev("abort", s._nid, type(ex).__name__)

        def exit(s):
            run.st[s._nid].exited += 1
            run.ev("exit", s._nid)
            _exit_touch(run, s._nid)

    class TGenDoer(TDoer):
        def enter(s, *, temp=None):
            run.st[s._nid].entered += 1
            run.ev("enter", s._nid, s.tyme)
            s._enter_r = _on_enter(run, s._nid)

        def recur(s, tock=None):
            if s._enter_r is not None:
                return s._enter_r[1]
            y = tock
            while True:
                tyme = (yield y)
                run.ev("recur", s._nid, tyme, s.tyme)
                r = _wake(run, s._nid, tyme)
                if r[0] == "ret":
                    return r[1]
                y = r[1]

    class TDoDoer(doing.DoDoer):
        def __init__(s, nid, **kwa):
            super().__init__(**kwa)
            s._nid = nid

        def enter(s, doers=None, *, temp=None):
            if doers is None:
                run.st[s._nid].entered += 1
                run.ev("enter", s._nid, s.tyme)
            try:
                return super().enter(doers=doers, temp=temp)
            except _CaseTimeout:
                raise
            except BaseException as ex:
                if doers is None:
                    st = run.st[s._nid]
                    st.exc_kind = "kbint" if isinstance(ex, (KeyboardInterrupt, SystemExit)) else "raise"
                raise

        def recur(s, tyme, deeds=None):
            run.ev("recur", s._nid, tyme, s.tyme)
            st = run.st[s._nid]
            try:
                r = super().recur(tyme, deeds=deeds)
            except _CaseTimeout:
                raise
            except BaseException as ex:
                st.exc_kind = "kbint" if isinstance(ex, (KeyboardInterrupt, SystemExit)) else "raise"
                raise
            st.last_ret = r
            run.ev("recur_end", s._nid)
            return r

        def clean(s):
            run.ev("clean", s._nid)

        def cease(s):
            run.ev("cease", s._nid)

        def abort(s, ex):
            run.ev("abort", s._nid, type(ex).__name__)

        def exit(s, deeds=None):
            if deeds is None:
                run.ev("exit_begin", s._nid)
            super().exit(deeds=deeds)
            if deeds is None:
                run.st[s._nid].exited += 1
                run.ev("exit", s._nid)

    class TDoist(doing.Doist):
        def recur(s, deeds=None):
            run.cycles += 1
            if run.cycles > run.max_cycles:
                raise Runaway()
            run.ev("cycle_begin", run.cycles - 1, s.tyme)
            super().recur(deeds=deeds)
            run.ev("cycle_end", run.cycles - 1, s.tyme, run.ids_of(s.doers))

        def exit(s, deeds=None):
            if deeds is None:
                run.ev("exit_begin", -1)
            super().exit(deeds=deeds)
            if deeds is None:
                run.ev("exit", -1)

    class Holder:
        pass

    def make(nid, parent):
        node = prog["nodes"][nid]
        kind = node["kind"]
        if kind == "doer":
            obj = TDoer(nid, tock=node["tock"])
        elif kind == "gendoer":
            obj = TGenDoer(nid, tock=node["tock"])
        elif kind == "doify":
            obj = doing.doify(_make_genfunc(run, nid), name="gf%d" % nid, tock=node["tock"])
            obj._nid = nid
        elif kind == "doize":
            obj = doing.doize(tock=node["tock"])(_make_genfunc(run, nid))
            obj._nid = nid
        elif kind == "method":
            gf = _make_genfunc(run, nid)
            h = Holder()

            def meth(self, tymth, tock=0.0, *, temp=None, **opts):
                return (yield from gf(tymth, tock, temp=temp, **opts))
            Holder_m = type("Holder%d" % nid, (), {"meth": meth})
            h = Holder_m()
            obj = doing.doify(h.meth, name="m%d" % nid, tock=node["tock"])
            obj.__func__._nid = nid
        elif kind == "dodoer":
            if prog.get("ctor_lists"):
                # the doers are handed over at construction as a list the caller keeps (and keeps up to date as its roster)
                kids = [make(c, None) for c in node["children"]]
                obj = TDoDoer(nid, doers=kids, tock=node["tock"], always=node["always"])
                for c in node["children"]:
                    run.st[c].parent = obj
                run.rosters[id(obj)] = kids
            else:
                obj = TDoDoer(nid, tock=node["tock"], always=node["always"])
                kids = [make(c, obj) for c in node["children"]]
                obj.doers = kids
        else:
            raise HarnessError("kind %r" % kind)
        run.objs[nid] = obj
        run.st[nid].obj = obj
        run.st[nid].parent = parent
        return obj

    args = prog.get("args") or {}
    ctor_tyme = args["ctor_tyme"] if args.get("tyme") else prog["t0"]
    ctor_limit = args["ctor_limit"] if (args.get("limit") and prog["limit"] is not None) else prog["limit"]
    if prog.get("ctor_lists") and not args.get("doers") and not prog.get("stale"):
        roots = [make(r, None) for r in prog["roots"]]
        doist = TDoist(tock=prog["T"], tyme=ctor_tyme, real=prog["real"], limit=ctor_limit, doers=roots)
        for r in prog["roots"]:
            run.st[r].parent = doist
        run.rosters[id(doist)] = roots
        run.doist = doist
        if res is not None:
            res.faults["schedulers_constructed_with_the_callers_list"] += 1
    else:
        doist = TDoist(tock=prog["T"], tyme=ctor_tyme, real=prog["real"], limit=ctor_limit)
        run.doist = doist
        roots = [make(r, doist) for r in prog["roots"]]
    stale = [make(r, None) for r in prog.get("stale", [])]
    for s in prog["spares"]:
        if s not in run.objs:
            make(s, None)
    # children of spare dodoers got parent=obj inside make; spare roots have parent None
    run.do_kwargs = {}
    if args.get("doers"):
        run.do_kwargs["doers"] = roots
        if stale:
            doist.doers = stale      # left over from "earlier use"; do(doers=...) replaces them
    elif id(doist) not in run.rosters:
        doist.doers = roots
    if args.get("limit") and prog["limit"] is not None:
        run.do_kwargs["limit"] = prog["limit"]
    if args.get("tyme"):
        run.do_kwargs["tyme"] = prog["t0"]
    run.TDoist = TDoist
    return run


def _manual_run(run, doist):
    """the run stepped by the caller with a deque of its own, as the API allows: deeds = enter(doers=...); recur(deeds=deeds)
    until done or the limit; exit(deeds=deeds) - what do() does, spelled out"""
    from hio.base import tyming as _tyming
    kw = run.do_kwargs
    doers = kw.get("doers", doist.doers)
    doist.doers = list(doers)
    if kw.get("limit") is not None:
        doist.limit = abs(float(kw["limit"]))
    if kw.get("tyme") is not None:
        doist.tyme = kw["tyme"]
    doist.done = False
    run.fault("run_stepped_by_caller_with_own_deque")
    deeds = None
    try:
        deeds = doist.enter(doers=doist.doers)
        tymer = _tyming.Tymer(tymth=doist.tymen(), duration=doist.limit)
        while True:
            try:
                doist.recur(deeds=deeds)
                if not deeds:
                    doist.done = True
                    break
                if doist.limit and tymer.expired:
                    break
            except KeyboardInterrupt:
                break
    finally:
        run.ev("exit_begin", -1)
        if deeds is not None:
            doist.exit(deeds=deeds)
        run.ev("exit", -1)


def execute(prog, res=None, mode="do", vloop_factory=None, noise=None):
    """build and run; returns the Run with its trace sealed"""
    clock = SimClock()
    with clock_installed(clock):   # the Doist's MonoTimer reads the clock at construction
        run = build(prog, res)
    doist = run.doist
    if prog.get("prior") and prog["roots"]:
        pr = prog["prior"]
        roots = [run.objs[r] for r in prog["roots"]]
        run.muted = True
        pdoers = list(roots)
        plimit = pr["cycles"] * prog["T"]
        if pr.get("end") == "raise":
            ncyc = pr["cycles"]

            def bomb(tymth, tock=0.0, **opts):
                for _ in range(ncyc):
                    yield tock
                raise SimFault("prior run")
            bomb.tock = 0.0
            bomb.done = None
            bomb.opts = {}
            pdoers.insert(min(pr.get("bomb_at", 0), len(pdoers)), bomb)
            plimit = (pr["cycles"] + 3) * prog["T"]
        try:
            with clock_installed(clock):
                if pr["same"]:
                    keep = (doist.tyme, doist.limit, list(doist.doers), run.cycles)
                    try:
                        doist.do(doers=pdoers, tyme=pr["tyme"], limit=plimit)
                    except SimFault:
                        pass
                    doist.tyme, doist.limit = keep[0], keep[1]
                    doist.doers = keep[2]
                    doist.done = None
                else:
                    try:
                        doing.Doist(tock=prog["T"], tyme=pr["tyme"], real=False, limit=plimit).do(doers=pdoers)
                    except SimFault:
                        pass
        finally:
            run.muted = False
        run.cycles = 0
        for st in run.st.values():
            st.k = 0
            st.entered = st.exited = 0
            st.outcome = st.last_ret = st.exc_kind = None
        if res is not None:
            res.faults["prior_run_cut_off_by_limit" if pr.get("end") != "raise" else "prior_run_ended_by_a_raise_mid_cycle"] += 1
    if prog.get("kbint_sleep") is not None:
        target = prog["kbint_sleep"]

        def on_sleep(c, d, i):
            if i == target:
                run.fault("kbint_in_sleep")
                run.ev("kbint_sleep", i)
                raise KeyboardInterrupt()
            return 0.0
        clock.on_sleep = on_sleep
    exc = None
    with clock_installed(clock):
        run.ev("do_begin", mode)
        try:
            if mode == "do" and prog.get("manual"):
                _manual_run(run, doist)
            elif mode == "do":
                doist.do(**run.do_kwargs)
            else:
                loop = vloop_factory()
                try:
                    loop.run_with_noise(doist.ado(**run.do_kwargs), noise or [])
                finally:
                    loop.close()
            run.result = ("return",)
            run.ev("do_return")
        except HarnessError:
            raise
        except _CaseTimeout:
            raise
        except Runaway as ex:
            exc = ex
            run.runaway = True
            run.result = ("runaway",)
            run.ev("do_runaway")
        except BaseException as ex:
            exc = ex
            run.result = ("raise", type(ex).__name__, repr(ex)[:120])
            run.ev("do_raise", type(ex).__name__)
        # while the exception object is still alive (so frames it references are too):
        run.alive_at_end = sorted(n for n, st in run.st.items() if st.entered > st.exited)
        run.final = dict(done=doist.done, tyme=doist.tyme, doers=run.ids_of(doist.doers),
                         deeds=len(doist.deeds),
                         node_done={n: _get_done(run.objs[n]) for n in sorted(run.objs)})
    run.sealed = True
    run.sim_true_time = clock.true
    del exc
    gc.collect()
    return run


def _get_done(obj):
    try:
        return obj.done
    except Exception:
        return "?"


def trace_digest(run):
    return digest([list(map(_j, e)) for e in run.trace] + [list(run.result or ())])


def _j(x):
    if isinstance(x, float):
        return repr(x)
    return x


def check_runaway(run, res):
    """common to all sched checks: a run that exceeds the cycle cap did not terminate"""
    if run.runaway:
        res.violate("run-did-not-terminate", "the run was still going after %d cycles although every doer's script is finite "
                    "or a limit was set (limit %r, tock %r)" % (run.max_cycles, run.prog["limit"], run.prog["T"]))
        return True
    return False
