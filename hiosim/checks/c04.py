"""
C04  Nesting doers inside a tock-0 DoDoer is observationally transparent.
"""
import copy
from .. import sched
from ..core import Result, digest
from . import c03

PID = "C04"
LEVEL = "exploration"
RULE = ("Differential: a flat fault-free doer list P (as C03, with or without limit) is run under the real Doist, then "
        "run again from fresh objects as G(P), where G groups seeded runs of consecutive siblings under DoDoer(tock=0), "
        "recursively to depth 3. Leaf-only observations must be identical: enter order, sequence of (doer, tyme) recurs, "
        "completion cycle, final tyme, done flags of every leaf and of the Doist, order of clean/cease/exit events. "
        "Non-trivial: >= 1 group with >= 2 leaves, >= 3 leaves, >= 4 cycles, and leaves with different yielded tocks. "
        "Distinct: digest of (P, grouping).")
COMPONENTS = c03.COMPONENTS
ASSUMPTIONS = ["both runs use hio's real scheduler; the reference model is used only to classify a mismatch as finding F5"]
PROBES = ["depth2_grouping", "limit_forced_exit_compared", "group_completes_before_run_ends"]
BOUNDS = dict(quick=dict(leaves=8, depth=3, steps=7), thorough=dict(leaves=12, depth=3, steps=12))
TIERS = dict(quick=dict(cases=30000, wall=60.0), thorough=dict(cases=900000, wall=420.0))


def regroup(tape, prog, maxdepth=3):
    """return a nested copy of flat program prog"""
    g = copy.deepcopy(prog)
    nodes = g["nodes"]
    depth2 = [False]

    def group(ids, depth):
        if depth >= maxdepth or len(ids) == 0:
            return ids
        out = []
        i = 0
        while i < len(ids):
            if tape.flag("grp", 1, 2):
                n = 1 + tape.draw("grp_len", min(4, len(ids) - i))
                members = ids[i:i + n]
                i += n
                nid = max(nodes) + 1
                nodes[nid] = dict(id=nid, kind="dodoer", tock=0.0, always=False, enter="ok", steps=[],
                                  children=[])
                inner = group(members, depth + 1)
                if any(nodes[c]["kind"] == "dodoer" for c in inner):
                    depth2[0] = True
                nodes[nid]["children"] = inner
                out.append(nid)
            else:
                out.append(ids[i])
                i += 1
        return out

    g["roots"] = group(list(prog["roots"]), 0)
    return g, depth2[0]


def leaf_view(run):
    prog = run.prog
    leaf = lambda nid: nid != -1 and prog["nodes"][nid]["kind"] != "dodoer"
    evs = []
    for e in run.trace:
        if e[0] in ("enter", "clean", "cease", "abort", "exit") and leaf(e[1]):
            evs.append((e[0], e[1]))
        elif e[0] == "recur" and leaf(e[1]):
            evs.append(("recur", e[1], e[2], e[3]))
    done = {n: v for n, v in run.final["node_done"].items() if leaf(n)}
    return dict(events=evs, cycles=run.cycles, tyme=run.final["tyme"], doist_done=run.final["done"],
                done=done, result=run.result)


def run_case(tape, tier):
    res = Result()
    feat = c03.feat_for(tier, nested=False)
    feat["max_roots"] = 8 if tier == "quick" else 12
    feat["max_nodes"] = feat["max_roots"]
    flat = sched.gen_program(tape, feat)
    nested, depth2 = regroup(tape, flat)
    r1 = sched.execute(flat, res)
    r2 = sched.execute(nested, None)
    sched.check_runaway(r1, res)
    sched.check_runaway(r2, res)
    v1, v2 = leaf_view(r1), leaf_view(r2)
    res.scenario = lambda: dict(flat=sched.prog_readable(flat), nested_roots=nested["roots"],
                                groups={k: v["children"] for k, v in nested["nodes"].items() if v["kind"] == "dodoer"})
    res.event_digest = digest([sched.trace_digest(r1), sched.trace_digest(r2)])
    res.scen_digest = digest(dict(p=sched.prog_readable(flat), g=sched.prog_readable(nested)["roots"],
                                  gg=sorted((k, v["children"]) for k, v in nested["nodes"].items() if v["kind"] == "dodoer")))
    res.comparisons = len(v1["events"])
    if v1 != v2:
        # classify: is it exactly finding F5?
        verdict_f, _m, _ = c03.compare_with_model(r1, flat, res)
        diff = _diff(v1, v2)
        if verdict_f == "ok" and c03.matches_quirk(r2, nested):
            res.finding("F5", diff)
        else:
            res.violate("nesting-not-transparent", diff)
    ngroups = [v for v in nested["nodes"].values() if v["kind"] == "dodoer"]
    if depth2:
        res.probes["depth2_grouping"] += 1
    if any(e[0] == "cease" for e in v1["events"]):
        res.probes["limit_forced_exit_compared"] += 1
    if any(e[0] == "clean" and nested["nodes"][e[1]]["kind"] == "dodoer" for e in r2.trace[:-6] if len(e) > 1 and e[1] != -1):
        res.probes["group_completes_before_run_ends"] += 1
    yl = set()
    for nid, nd in flat["nodes"].items():
        yl.add(tuple(repr(s["y"]) for s in nd["steps"]))
    res.nontrivial = (any(len(_leaves(nested, g["id"])) >= 2 for g in ngroups) and len(flat["roots"]) >= 3
                      and r1.cycles >= 4 and len(yl) >= 2)
    res.sim_time = (r1.final["tyme"] - flat["t0"]) * 2
    res.steps = len(r1.trace) + len(r2.trace)
    return res


def _leaves(prog, nid):
    nd = prog["nodes"][nid]
    if nd["kind"] != "dodoer":
        return [nid]
    out = []
    for c in nd["children"]:
        out += _leaves(prog, c)
    return out


def _diff(v1, v2):
    for k in ("cycles", "tyme", "doist_done", "done", "result"):
        if v1[k] != v2[k]:
            return "%s: flat %r nested %r" % (k, v1[k], v2[k])
    a, b = v1["events"], v2["events"]
    for i in range(max(len(a), len(b))):
        x = a[i] if i < len(a) else None
        y = b[i] if i < len(b) else None
        if x != y:
            return "leaf event #%d: flat %r nested %r" % (i, x, y)
    return "?"
