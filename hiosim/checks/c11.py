"""
C11  Closing a TCP endpoint releases every socket it opened.
"""
import errno
from .. import netlab
from ..core import Result, digest

PID = "C11"
ENGINE = "net"
LEVEL = "exploration"
RULE = ("Each case draws a history of up to 40 (thorough 120) operations on a real hio Server/ServerTls and 2-3 Clients/ClientTls on the "
        "fake kernel: client service (connect / handshake progress), client reopen, client close, client abandons a connection "
        "(close so the server side is cut off; as RST with unread data or as a clean FIN), server service, net delivery, server close, server reopen, server reopen whose bind() fails (EADDRINUSE / EADDRNOTAVAIL / EACCES), a burst of full service rounds (so connects and TLS handshakes complete); every history ends with a server close. Client ports come from "
        "a pool of two, so a new connection regularly arrives from the same (host, port) while the old Remoter is still in the "
        "server's table; TLS clients are left mid-handshake by simply not servicing them. Oracle, evaluated after every close in "
        "the history: after server.close() no socket the server created or accepted (listen, accepted, TLS-wrapped) is open in "
        "the fake kernel; after client.close() that client has no open socket, after reopen()/reconnect at most its current one. "
        "Non-trivial: a server.close() happened while >= 1 accepted connection existed and (a TLS handshake was pending or a "
        "connection had been replaced by a newer one from the same address). Distinct: digest of the executed history.")
COMPONENTS = dict(real=["hio.core.tcp.serving.Server/ServerTls/Remoter/RemoterTls", "hio.core.tcp.clienting.Client/ClientTls", "OpenSSL engine"],
                  stub=["kernel sockets with open/closed accounting (FakeSocket)"])
ASSUMPTIONS = ["a socket counts as released when close() was called on it (the fake kernel's descriptor table)"]
PROBES = ["server_close_with_pending_handshake", "server_close_after_replacement", "server_close_with_established", "client_reopen_while_connected",
          "same_address_replacement", "server_reopen", "tls_established_replaced_after_handshake", "server_reopen_bind_failed", "reconnectable_client", "small_listen_backlog"]
BOUNDS = dict(quick=dict(ops=40, clients=3), thorough=dict(ops=120, clients=3))
TIERS = dict(quick=dict(cases=30000, wall=60.0), thorough=dict(cases=1500000, wall=420.0))
SIM_TIME_UNIT = "net steps"


def run_case(tape, tier):
    res = Result()
    tls = tape.flag("tls", 1, 2)
    ncl = 2 + tape.draw("nclients", 2)
    maxops = 40 if tier == "quick" else 120
    nops = 6 + tape.draw("nops", maxops - 5)
    hist = []
    tyme = [0.0]
    # listen backlog: default, or smaller than the number of peers that connect between two service passes
    bl = tape.pick("backlog", [128, 128, 1, 2])
    if bl != 128:
        res.probes["small_listen_backlog"] += 1
    with netlab.Lab(tape, res, tls=tls, bs=8096, rates=dict(inprogress=tape.pick("r_inprog", [0, 4])), wirelog=False,
                    ports=(50001, 50002), tymth=lambda: tyme[0], server_kwa=dict(bl=bl)) as lab:
        net = lab.net
        lab.make_server()
        for _ in range(ncl):
            if tape.flag("reconnectable_client", 1, 3):
                # retries by itself when its (virtual time) retry tymer expires while the connect or handshake is pending
                lab.make_client(reconnectable=True, tymeout=0.5)
                res.probes["reconnectable_client"] += 1
            else:
                lab.make_client()
        replaced = [0]
        server_open = True
        nontriv = False
        W = [("svc_client", 6), ("svc_server", 6), ("net", 4), ("client_reopen", 2), ("client_close", 2),
             ("server_close", 1), ("server_reopen", 2), ("client_tx", 1), ("rounds", 3), ("server_reopen_bind_fails", 1), ("tyme_passes", 2)]
        names = [w[0] for w in W]
        weights = [w[1] for w in W]

        def open_of(owner):
            return [s for s in net.sockets if s.state != "closed" and s.owner == owner]

        def count_replacements():
            # a server-side accepted socket that is open but belongs to no remoter the server still holds
            held = set()
            for rm in list(lab.server.ixes.values()) + list(getattr(lab.server, "cxes", {}).values()):
                if rm.cs is not None:
                    held.add(getattr(rm.cs, "sock", rm.cs).sid)
            return [s for s in open_of("server") if s.state == "connected" and s.sid not in held]

        dups = [0]

        def dup_addresses():
            # connections that arrived from an address the server had already seen (old Remoter replaced)
            cas = [rm.ca for rm in lab.remoters]
            return len(cas) - len(set(cas))

        was_connected = set()

        def note_connected():
            for rm in lab.remoters:
                if getattr(rm, "connected", True) and rm.cs is not None:
                    was_connected.add(id(rm))

        def server_close_and_check():
            nonlocal nontriv
            pend = len(getattr(lab.server, "cxes", {}))
            est = len(lab.server.ixes)
            repl = dup_addresses()
            if tls and repl:
                seen = {}
                for rm in lab.remoters:
                    if rm.ca in seen and id(seen[rm.ca]) in was_connected and id(rm) in was_connected:
                        res.probes["tls_established_replaced_after_handshake"] += 1
                        break
                    seen[rm.ca] = rm
            lab.as_owner("server", lab.server.close)
            res.comparisons += 1
            if pend:
                res.probes["server_close_with_pending_handshake"] += 1
            if repl:
                res.probes["server_close_after_replacement"] += 1
            if est:
                res.probes["server_close_with_established"] += 1
            if est and (pend or repl):
                nontriv = True
            o = open_of("server")
            if o:
                kinds = []
                for s in o:
                    kinds.append("listen" if s.state == "listening" else "accepted from port %s" % (s.raddr[1] if s.raddr else "?"))
                res.violate("server-socket-leak", "after server.close() %d socket(s) of the server are still open: %s "
                            "(pending handshakes before close: %d, established: %d, replaced-and-unheld: %d)" % (
                                len(o), kinds, pend, est, repl))
                return True
            return False

        for _ in range(nops):
            op = names[tape.weighted("op", weights)]
            i = tape.draw("who", ncl)
            hist.append((op, i))
            res.steps += 1
            if op == "svc_client":
                try:
                    lab.svc_client(i)
                except OSError:
                    pass   # C10's business; this check only counts sockets
                o = open_of("client%d" % i)
                res.comparisons += 1
                if len(o) > 1:
                    res.violate("client-socket-leak", "after client %d service() (auto-reconnect) it has %d open sockets %s" % (i, len(o), o))
                    break
            elif op == "svc_server":
                if server_open:
                    try:
                        lab.svc_server()
                        note_connected()
                    except (OSError, AttributeError):
                        # e.g. remoters closed by an earlier server.close() are still in the table after
                        # reopen() and make service() raise AttributeError; not what this property is about
                        res.probes["server_service_raised"] += 1
                    if dup_addresses() > dups[0]:
                        dups[0] = dup_addresses()
                        res.probes["same_address_replacement"] += 1
            elif op == "net":
                net.step()
            elif op == "tyme_passes":
                tyme[0] += 0.3 * (1 + i)
            elif op == "rounds":
                # a few full service rounds so that connects and TLS handshakes run to completion
                for _r in range(2 + i * 2):
                    for j in range(ncl):
                        try:
                            lab.svc_client(j)
                        except OSError:
                            pass
                    net.step()
                    if server_open:
                        try:
                            lab.svc_server()
                            note_connected()
                        except (OSError, AttributeError):
                            res.probes["server_service_raised"] += 1
                    net.step()
                if dup_addresses() > dups[0]:
                    dups[0] = dup_addresses()
                    res.probes["same_address_replacement"] += 1
            elif op == "client_tx":
                lab.clients[i].tx(b"x" * 10)
            elif op == "client_reopen":
                c = lab.clients[i]
                if c.connected:
                    res.probes["client_reopen_while_connected"] += 1
                lab.as_owner("client%d" % i, c.reopen)
                res.comparisons += 1
                o = open_of("client%d" % i)
                if len(o) > 1 or (len(o) == 1 and getattr(c.cs, "sock", c.cs) is not o[0]):
                    res.violate("client-socket-leak", "after client %d reopen() it has %d open sockets %s" % (i, len(o), o))
                    break
            elif op == "client_close":
                c = lab.clients[i]
                if c.cs is not None and tape.flag("abortive_close", 1, 3):
                    # unread data in the client's kernel buffer: the close is a RST; the server-side socket then refuses
                    # shutdown() with ENOTCONN and still has to be close()d
                    raw = getattr(c.cs, "sock", c.cs)
                    if raw.inp is not None and raw.state == "connected":
                        raw.inp.rx.extend(b"unread")
                    res.faults["client_abortive_close"] += 1
                elif c.cs is not None and tape.flag("clean_fin", 1, 2):
                    # nothing unread in the client's kernel buffer: the close is a clean FIN (mid-handshake the server then
                    # sees a TLS EOF) instead of the RST a close with unread data produces
                    raw = getattr(c.cs, "sock", c.cs)
                    if raw.inp is not None and raw.inp.rx:
                        del raw.inp.rx[:]
                    res.faults["client_clean_fin"] += 1
                lab.as_owner("client%d" % i, c.close)
                res.comparisons += 1
                o = open_of("client%d" % i)
                if o:
                    res.violate("client-socket-leak", "after client %d close() it still has open sockets %s" % (i, o))
                    break
            elif op == "server_close":
                if not server_open:
                    continue
                server_open = False
                if server_close_and_check():
                    break
            elif op == "server_reopen_bind_fails":
                # bind() of the new listen socket fails (address in use / not available / no permission): reopen() reports
                # failure, and the socket it created for the attempt must not stay open
                net.bind_fail = [errno.EADDRINUSE, errno.EADDRNOTAVAIL, errno.EACCES][i % 3]
                ok = lab.as_owner("server", lab.server.reopen)
                net.bind_fail = None
                server_open = bool(ok)
                res.probes["server_reopen_bind_failed"] += 1
                res.comparisons += 1
                lst = [s for s in open_of("server") if s.state != "connected"]
                if not ok and lst:
                    res.violate("server-socket-leak", "server.reopen() failed at bind() and left %d unconnected socket(s) of the server open" % len(lst))
                    break
                if not ok and tape.flag("reopen_again", 2, 3):
                    server_open = bool(lab.as_owner("server", lab.server.reopen))
            elif op == "server_reopen":
                ok = lab.as_owner("server", lab.server.reopen)
                server_open = bool(ok)
                res.probes["server_reopen"] += 1
                res.comparisons += 1
                lst = [s for s in open_of("server") if s.state == "listening"]
                if len(lst) > 1:
                    res.violate("server-socket-leak", "after server.reopen() there are %d open listen sockets" % len(lst))
                    break
        if server_open and not res.violations:
            # every history ends with the server closed, so the oracle sees whatever the history left behind
            hist.append(("server_close", 0))
            server_close_and_check()
        events = list(net.events)
        sim_now = net.now
    res.scenario = lambda: dict(tls=tls, clients=ncl, history=["%s%d" % h for h in hist])
    res.scen_digest = digest(dict(tls=tls, n=ncl, h=hist))
    res.event_digest = digest([list(map(str, e)) for e in events if not tls or e[1] not in ("send", "recv")])
    res.nontrivial = nontriv
    res.sim_time = float(sim_now)
    return res
