"""
C18  WSGI responses are framed and pipelined requests answered in order.
"""
from ..core import CaseTimeout as _CaseTimeout
from .. import netlab, rawpeer, httpref
from ..core import Result, digest
from hio.core.http import serving as hserving
from hio.core.http import httping as hhttping

PID = "C18"
ENGINE = "http"
LEVEL = "fault_enumeration"
RULE = ("Each case runs a real hio http Server on the fake kernel (partial sends, short reads, delivery delay drawn per case) with a "
        "scripted WSGI application and one raw client that sends 1-5 (thorough 7) pipelined requests, the last of which may end the connection (HTTP/1.0 and 1.1; Connection "
        "keep-alive / close / default; GET/POST/PUT with bodies), all at once or spaced. Per request the application script draws a "
        "status (200/201/404/500/301, and 204/304 without body; or raises hio's HTTPError before producing anything), a header list (with or without Content-Length, duplicate headers), "
        "1-5 body pieces including empty b'' 'not ready' yields, optionally a generator return value, optionally more bytes than "
        "the declared length. The bytes the client receives are decoded by an independent strict HTTP/1.1 response parser. Oracle: "
        "exactly one response per request up to and including the first non-persistent request, in request order, each with the "
        "application's status, headers (server-added Server/Date/Transfer-Encoding ignored) and body clipped to a declared "
        "Content-Length; every response is self-delimiting while the connection is open; EOF follows a response iff its request "
        "was not persistent; no unaccounted bytes. Non-trivial: >= 2 requests answered on one connection with >= 1 response "
        "without Content-Length after the first, and >= 1 partial send or short read fired. Distinct: digest of requests + app scripts.")
COMPONENTS = dict(real=["hio.core.http.serving.Server/Responder/Requestant", "hio.core.tcp.serving.Server/Remoter"],
                  stub=["kernel sockets (FakeSocket)", "raw pipelining client"], model=["hiosim/httpref.py (independent response parser)"])
ASSUMPTIONS = ["applications that deliver fewer bytes than they declare, 1xx statuses, bodies on 204/304 and HEAD requests are outside the generated domain",
               "the reference parser honours Transfer-Encoding: chunked on 204/304"]
PROBES = ["app_raised_httperror", "second_response_without_length", "http10_keepalive", "clipped_to_length", "empty_yields", "generator_return_value",
          "mixed_versions_on_connection", "status_204_304"]
BOUNDS = dict(quick=dict(requests=5, pieces=5), thorough=dict(requests=7, pieces=6))
TIERS = dict(quick=dict(cases=50000, wall=60.0), thorough=dict(cases=1500000, wall=420.0))
SIM_TIME_UNIT = "net steps"

STATUSES = ["200 OK", "201 Created", "404 Not Found", "500 Internal Server Error", "301 Moved Permanently", "204 No Content", "304 Not Modified"]


def gen_case(tape, tier):
    nreq = 1 + tape.draw("nreq", 5 if tier == "quick" else 7)
    reqs = []
    for i in range(nreq):
        version = tape.pick("version", ["1.1", "1.1", "1.0"])
        conn = tape.pick("conn", [None, None, "keep-alive", "close"])
        method = tape.pick("method", ["GET", "POST", "PUT"])
        body = b""
        if method != "GET":
            body = bytes(65 + tape.draw("b", 26) for _ in range(tape.draw("reqbody", 20)))
        status = tape.pick("status", STATUSES)
        nobody = status.startswith(("204", "304"))
        pieces = []
        if not nobody:
            for _ in range(1 + tape.draw("npieces", 5 if tier == "quick" else 6)):
                if tape.flag("empty_piece", 1, 4):
                    pieces.append(b"")
                else:
                    n = 1 + tape.draw("piece_len", 40)
                    pieces.append(bytes((97 + (i * 3 + j) % 26) for j in range(n)))
        retval = None
        if not nobody and tape.flag("retval", 1, 6):
            retval = b"<tail%d>" % i
        total = sum(len(p) for p in pieces) + (len(retval) if retval else 0)
        cl = None
        mode = tape.pick("cl_mode", ["none", "exact", "none", "short"])
        if nobody:
            mode = tape.pick("cl_mode_nobody", ["none", "zero"])
            if mode == "zero":
                cl = 0
        elif mode == "exact":
            cl = total
        elif mode == "short" and total > 1:
            cl = tape.draw("cl_short", total)       # app sends more than it declares (0 .. total-1): must be clipped
        headers = [("Content-Type", "text/plain")]
        if tape.flag("dup_hdr", 1, 5):
            headers += [("X-Req", str(i)), ("X-Dup", "a")]
        else:
            headers += [("X-Req", str(i))]
        if cl is not None:
            headers.append(("Content-Length", str(cl)))
        httperror = None
        if tape.flag("app_raises_httperror", 1, 8):
            # the application (a generator) raises hio's HTTPError before producing anything: the server answers with that
            # status and the rendered error as a length-delimited text/plain body
            httperror = dict(status=tape.pick("errstatus", [400, 404, 503]), title="t%d" % i, detail="d%d" % i)
            ex = hhttping.HTTPError(**httperror)
            status = "%d %s" % (ex.status, ex.reason)
            rendered = ex.render()
            pieces, retval, cl = [bytes(rendered if isinstance(rendered, (bytes, bytearray)) else rendered.encode())], None, None
            cl = len(pieces[0])
            headers = [("content-type", "text/plain"), ("content-length", str(cl))]
        req_chunks = None
        if method != "GET" and version == "1.1" and tape.flag("req_chunked", 1, 3):
            req_chunks = [1 + tape.draw("req_cut", 20) for _ in range(tape.draw("n_req_cuts", 3))] or [0]
        reqs.append(dict(i=i, version=version, conn=conn, method=method, body=body, req_chunks=req_chunks, status=status, pieces=pieces, retval=retval,
                         cl=cl, headers=headers, httperror=httperror))
        if not persistent(reqs[-1]):
            break      # a well-behaved client sends nothing after a request that ends the connection
    return reqs


def persistent(r):
    if r["version"] == "1.1":
        return r["conn"] != "close"
    return r["conn"] == "keep-alive"


def request_bytes(r):
    lines = ["%s /r%d HTTP/%s" % (r["method"], r["i"], r["version"]), "Host: x"]
    if r["conn"]:
        lines.append("Connection: %s" % r["conn"])
    if r["method"] != "GET" and r.get("req_chunks"):
        # the request body comes chunked: how one request was framed must not leak into how the next one is read
        lines.append("Transfer-Encoding: chunked")
        b, out = r["body"], []
        cuts = sorted(set(min(len(b), c) for c in r["req_chunks"])) if b else []
        prev = 0
        for c in cuts + [len(b)]:
            if c > prev:
                out.append(b"%x\r\n" % (c - prev) + b[prev:c] + b"\r\n")
                prev = c
        return ("\r\n".join(lines) + "\r\n\r\n").encode() + b"".join(out) + b"0\r\n\r\n"
    if r["method"] != "GET":
        lines.append("Content-Length: %d" % len(r["body"]))
    return ("\r\n".join(lines) + "\r\n\r\n").encode() + r["body"]


def run_case(tape, tier):
    res = Result()
    reqs = gen_case(tape, tier)
    rates = dict(partial=tape.pick("r_partial", [0, 2, 8]), short=tape.pick("r_short", [0, 2, 8]), delay=tape.pick("r_delay", [0, 2, 6]),
                 send_eagain=tape.pick("r_seagain", [0, 2]))
    cap = tape.pick("cap", [1 << 16, 300, 64])
    spaced = tape.flag("spaced", 1, 2)
    raised = []
    byidx = {r["i"]: r for r in reqs}

    def app(environ, start_response):
        i = int(environ["PATH_INFO"][2:])
        r = byidx[i]
        if r["httperror"]:
            def boom():
                raise hhttping.HTTPError(**r["httperror"])
                yield b""
            return boom()
        start_response(r["status"], list(r["headers"]))

        def gen():
            for p in r["pieces"]:
                yield p
            return r["retval"]
        return gen()

    with netlab.Lab(tape, res, wirelog=False, rates=rates, capacity=cap) as lab:
        net = lab.net
        net.current_owner = "server"
        server = hserving.Server(app=app, port=lab.port, tymth=lambda: 0.0, tymeout=1000.0)
        server.reopen()
        net.current_owner = None
        cl = rawpeer.RawClient(net, lab.port, "client0")
        k = 0
        if not spaced:
            cl.queue(b"".join(request_bytes(r) for r in reqs))
            k = len(reqs)
        quiet = 0
        for step in range(400 + 60 * len(reqs)):
            res.steps += 1
            nev = len(net.events)
            if spaced and k < len(reqs) and not cl.pending and tape.flag("send_next", 1, 3):
                cl.queue(request_bytes(reqs[k]))
                k += 1
            cl.step()
            net.current_owner = "server"
            try:
                server.service()
            except _CaseTimeout:
                raise
            except BaseException as ex:
                raised.append((type(ex).__name__, str(ex)[:150]))
                net.current_owner = None
                break
            net.current_owner = None
            net.step()
            if step > 60:
                net.faults_on = False
            if k >= len(reqs) and not cl.pending and net.quiet() and len(net.events) == nev:
                quiet += 1
                if quiet > 12:
                    break
            else:
                quiet = 0
        stream = bytes(cl.rx)
        eof = cl.closed_seen
        events = list(net.events)
        sim_now = net.now
    # ---- expectations
    expected = []
    for r in reqs:
        expected.append(r)
        if not persistent(r):
            break
    want_eof = not persistent(expected[-1])
    res.scenario = lambda: dict(requests=[dict(i=r["i"], version=r["version"], conn=r["conn"], method=r["method"], status=r["status"],
                                               content_length=r["cl"], pieces=[len(p) for p in r["pieces"]], retval=bool(r["retval"]),
                                               persistent=persistent(r)) for r in reqs],
                                rates=rates, capacity=cap, spaced=spaced, received=stream[:600].decode("latin1"), eof=eof)
    res.scen_digest = digest(dict(r=[dict(v=r["version"], c=r["conn"], m=r["method"], s=r["status"], cl=r["cl"], p=[len(p) for p in r["pieces"]],
                                          rv=bool(r["retval"]), h=r["headers"]) for r in reqs], sp=spaced))
    res.event_digest = digest([list(map(str, e)) for e in events] + [raised])
    res.sim_time = float(sim_now)
    res.faultfree = sum(res.faults.values()) == 0
    if raised:
        res.violate("service-raised", "Server.service() raised %s: %s" % raised[0])
        return res
    resp, pos, err = httpref.parse_all(stream, eof=eof)
    res.comparisons = len(expected) + 2
    f22 = False
    # F22 trigger: HTTP/1.0 keep-alive request answered without Content-Length
    for j, r in enumerate(expected):
        if r["version"] == "1.0" and persistent(r) and r["cl"] is None and not r["status"].startswith(("204", "304")):
            f22 = j
            break
    problem = None
    if err and err.startswith("malformed"):
        problem = ("framing-malformed", "byte stream from the server is not a sequence of well-formed responses: %s (after %d responses)" % (err, len(resp)))
    else:
        for j, r in enumerate(expected):
            if j >= len(resp):
                problem = ("response-missing", "request %d (%s HTTP/%s conn=%s) got no complete response; %d of %d expected responses parsed, "
                           "%d bytes unaccounted, eof=%s" % (r["i"], r["method"], r["version"], r["conn"], len(resp), len(expected), len(stream) - pos, eof), j)
                break
            got = resp[j]
            if got["framing"] == "close" and not (j == len(expected) - 1 and want_eof):
                problem = ("framing-not-self-delimiting", "response %d is delimited only by connection close but its request was persistent" % j, j)
                break
            if got["framing"] == "chunked" and r["version"] == "1.0":
                # RFC 7230 3.3.1: no Transfer-Encoding unless the request indicates HTTP/1.1; a 1.0 client cannot delimit it
                problem = ("framing-chunked-to-http10", "response %d to an HTTP/1.0 request uses chunked transfer coding" % j, j)
                break
            wstatus = int(r["status"].split()[0])
            if got["status"] != wstatus:
                problem = ("response-status", "response %d has status %d, application said %s (responses out of order?)" % (j, got["status"], r["status"]))
                break
            body = b"".join(r["pieces"]) + (r["retval"] or b"")
            if r["cl"] is not None:
                body = body[:r["cl"]]
            if got["body"] != body:
                problem = ("response-body", "response %d body has %d bytes %r, application produced %d bytes %r (content-length %s)" % (
                    j, len(got["body"]), got["body"][:40], len(body), body[:40], r["cl"]))
                break
            ignore = ("server", "date", "transfer-encoding")
            gh = sorted((k, v) for k, v in got["headers"] if k not in ignore)
            wh = sorted((k.lower(), v) for k, v in r["headers"])
            if gh != wh:
                problem = ("response-headers", "response %d headers %s, application set %s" % (j, gh, wh))
                break
        if problem is None:
            if len(resp) > len(expected):
                problem = ("response-extra", "%d responses for %d answerable requests" % (len(resp), len(expected)))
            elif pos != len(stream):
                problem = ("bytes-unaccounted", "%d bytes after the last complete response: %r" % (len(stream) - pos, stream[pos:pos + 40]))
            elif want_eof and not eof:
                problem = ("connection-not-closed", "last answered request %d was not persistent but the server did not close the connection" % expected[-1]["i"])
            elif not want_eof and eof:
                problem = ("connection-closed", "all requests were persistent but the server closed the connection")
    if problem is not None:
        if f22 is not False and _is_f22(problem, resp, expected, f22, stream, pos, eof):
            res.finding("F22", "request %d is HTTP/1.0 keep-alive and the application set no Content-Length: the response body is not "
                        "delimited and the connection stays open (%s)" % (expected[f22]["i"], problem[0]))
        else:
            res.violate(problem[0], problem[1])
    # probes
    if any(r["httperror"] for r in expected):
        res.probes["app_raised_httperror"] += 1
    if len(expected) >= 2 and any(r["cl"] is None for r in expected[1:]):
        res.probes["second_response_without_length"] += 1
    if any(r["version"] == "1.0" and persistent(r) for r in expected):
        res.probes["http10_keepalive"] += 1
    if any(r["cl"] is not None and r["cl"] < sum(len(p) for p in r["pieces"]) + len(r["retval"] or b"") for r in expected):
        res.probes["clipped_to_length"] += 1
    if any(b"" in r["pieces"] for r in expected):
        res.probes["empty_yields"] += 1
    if any(r["retval"] for r in expected):
        res.probes["generator_return_value"] += 1
    if len(set(r["version"] for r in expected)) > 1:
        res.probes["mixed_versions_on_connection"] += 1
    if any(r["status"].startswith(("204", "304")) for r in expected):
        res.probes["status_204_304"] += 1
    f = res.faults
    res.nontrivial = (len(expected) >= 2 and any(r["cl"] is None for r in expected[1:]) and
                      (f.get("send_partial", 0) + f.get("recv_short", 0) + f.get("send_partial_by_capacity", 0)) >= 1)
    return res


def _is_f22(problem, resp, expected, j, stream, pos, eof):
    """the first deviation is exactly at the HTTP/1.0 keep-alive response without Content-Length (index j):
    everything before it was right and that response is not delimited while the connection stays open"""
    if len(problem) < 3 or problem[2] != j:
        return False
    return problem[0] in ("response-missing", "framing-not-self-delimiting")
