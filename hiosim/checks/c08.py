"""
C08  Timers measure elapsed tyme exactly and restart losslessly.
"""
from fractions import Fraction
from .. import sched
from ..core import Result, digest, HarnessError
from hio.base import tyming
from hio.help import timing as htiming

PID = "C08"
ENGINE = "clock"
LEVEL = "exploration"
RULE = ("Two seeded scenario kinds. (a) Tymer on a scripted tyme source: histories of up to 30 (thorough 80) operations from "
        "{advance tyme by d (d from 0, dyadic, non-dyadic, negative = rewind), start(duration?, start?), restart(duration?), "
        "wind(new tyme source), read}; after every operation elapsed, remaining, expired, duration are compared with the "
        "arithmetic model (elapsed = now-start, remaining = stop-now, expired iff now >= stop, restart begins at the previous "
        "stop), in float exactly or in rationals within 1e-9. (b) MonoTimer on the simulated wall clock: histories of "
        "{true time passes, wall stalls, wall steps backwards by J, start, restart, read}; within one period consecutive "
        "readings of elapsed never decrease and expired never goes from True to False. Non-trivial: (a) >= 1 restart and "
        ">= 1 rewind or explicit start offset, (b) >= 1 backward step between two readings of the same period with >= 3 readings. "
        "Distinct: digest of the operation history.")
COMPONENTS = dict(real=["hio.base.tyming.Tymer", "hio.help.timing.MonoTimer"], stub=["tyme source (scripted closure)", "wall clock (SimClock)"])
ASSUMPTIONS = ["MonoTimer(retro=True) only (retro=False documents raising on a retrograde)", "no forward wall-clock jumps"]
PROBES = ["tymer_rewound_with_same_source", "strict_timer_refused", "mono_steady_arithmetic_checked", "tymer_rewind", "tymer_restart", "tymer_wind", "tymer_start_offset", "mono_backward_between_reads", "mono_backward_then_start",
          "mono_expired_then_backward", "mono_restart"]
BOUNDS = dict(quick=dict(ops=30), thorough=dict(ops=80))
TIERS = dict(quick=dict(cases=150000, wall=60.0), thorough=dict(cases=5000000, wall=420.0))
SIM_TIME_UNIT = "simulated seconds (tyme for Tymer, true seconds for MonoTimer)"

DELTAS = [0.0, 1.0, 0.25, 0.03125, 0.1, 1.0 / 3.0, 2.5, -0.5, -0.1, -3.0, 1e-9]
DURS = [1.0, 0.0, 0.25, 0.1, 2.0 / 3.0, 5.0]


def close(a, b):
    if a == b:
        return True
    return abs(Fraction(a) - Fraction(b)) <= Fraction(1, 10**9)


def tymer_case(tape, tier, res):
    maxops = 30 if tier == "quick" else 80
    now = [tape.pick("t0", [0.0, 1.5, 100.1])]
    tymth = (lambda b: (lambda: b[0]))(now)     # bound to this list: after wind() the old closure must be stale
    d0 = tape.pick("dur0", DURS)
    s0 = tape.pick("start0", [None, None, 0.0, 5.0, -1.0])
    tymer = tyming.Tymer(tymth=tymth, duration=d0, start=s0)
    # model (float) and (exact)
    m_start = float(s0) if s0 is not None else now[0]
    m_stop = m_start + float(d0)
    x_start = Fraction(m_start)
    x_stop = x_start + Fraction(float(d0))
    hist = [("init", d0, s0)]
    nops = 1 + tape.draw("nops", maxops)
    restarts = rewinds = offs = 0
    for _ in range(nops):
        op = tape.weighted("op", [4, 6, 2, 2, 1])   # read, advance, start, restart, wind
        if op == 1:
            d = tape.pick("delta", DELTAS)
            now[0] = now[0] + d
            hist.append(("advance", d))
            if d < 0:
                rewinds += 1
                res.probes["tymer_rewind"] += 1
        elif op == 2:
            dur = tape.pick("dur", [None] + DURS)
            st = tape.pick("start", [None, None, 0.0, 7.0, -2.0])
            r = tymer.start(duration=dur, start=st)
            cur_f = m_stop - m_start
            cur_x = x_stop - x_start
            m_start = float(st) if st is not None else now[0]
            x_start = Fraction(m_start)
            m_stop = m_start + (float(dur) if dur is not None else cur_f)
            x_stop = x_start + (Fraction(float(dur)) if dur is not None else cur_x)
            hist.append(("start", dur, st))
            if st is not None:
                offs += 1
                res.probes["tymer_start_offset"] += 1
            if not close(r, m_start):
                res.violate("tymer-start-return", "start() returned %r, expected %r; history %s" % (r, m_start, hist[-6:]))
        elif op == 3:
            dur = tape.pick("dur", [None] + DURS)
            tymer.restart(duration=dur)
            cur_f = m_stop - m_start
            cur_x = x_stop - x_start
            m_start, x_start = m_stop, x_stop
            m_stop = m_start + (float(dur) if dur is not None else cur_f)
            x_stop = x_start + (Fraction(float(dur)) if dur is not None else cur_x)
            hist.append(("restart", dur))
            restarts += 1
            res.probes["tymer_restart"] += 1
        elif op == 4:
            if tape.flag("wind_same_source", 1, 3):
                # wound again with the very tyme source it already has (what every re-entered doer does to its timers): the
                # period starts afresh at the current tyme all the same
                tymer.wind(tymth)
                res.probes["tymer_rewound_with_same_source"] += 1
            else:
                base = [tape.pick("wind_t", [0.0, 3.0, 50.5])]
                now = base
                tymth = (lambda b: (lambda: b[0]))(base)
                tymer.wind(tymth)
            cur_f = m_stop - m_start
            cur_x = x_stop - x_start
            m_start = now[0]
            x_start = Fraction(m_start)
            m_stop = m_start + cur_f
            x_stop = x_start + cur_x
            hist.append(("wind", now[0]))
            res.probes["tymer_wind"] += 1
        else:
            hist.append(("read",))
        # compare after every op
        t = now[0]
        res.comparisons += 4
        el, rem, ex, du = tymer.elapsed, tymer.remaining, tymer.expired, tymer.duration
        ok_f = (el == t - m_start and rem == m_stop - t and ex == (t >= m_stop) and du == m_stop - m_start)
        if not ok_f:
            xt = Fraction(t)
            ok_x = (close(el, xt - x_start) and close(rem, x_stop - xt) and close(du, x_stop - x_start)
                    and ex in (t >= m_stop, xt >= x_stop))     # float or exact reading of "now >= stop", nothing else
            if not ok_x:
                res.violate("tymer-arithmetic", "at tyme %r after %s: elapsed %r remaining %r expired %r duration %r; model start %r "
                            "stop %r -> elapsed %r remaining %r expired %r" % (
                                t, hist[-4:], el, rem, ex, du, m_start, m_stop, t - m_start, m_stop - t, t >= m_stop))
                break
    res.scenario = lambda: dict(kind="tymer", history=hist)
    res.scen_digest = digest(["tymer"] + [list(map(repr, h)) for h in hist])
    res.event_digest = res.scen_digest
    res.nontrivial = restarts >= 1 and (rewinds >= 1 or offs >= 1)
    res.sim_time = abs(now[0])
    res.steps = len(hist)


def mono_case(tape, tier, res):
    maxops = 30 if tier == "quick" else 80
    clock = sched.SimClock(wall0=tape.pick("wall0", [1000.0, 0.0, 1.7e9]))
    hist = []
    with sched.clock_installed(clock):
        d0 = tape.pick("dur0", DURS)
        # retro=False: the timer refuses (raises RetroTimerError) to give a reading while the system clock is behind the last
        # one it saw; the readings it does give are held to the same rule: elapsed never decreases, expired never reverts
        retro = not tape.flag("strict_timer", 1, 4)
        timer = htiming.MonoTimer(duration=d0, retro=retro)
        hist.append(("init", d0, retro))
        # while the wall clock has not gone backwards the timer is plain arithmetic on it (start, stop = start + duration,
        # restart from the previous stop); after the first backward step only monotonicity is demanded
        wall = lambda: clock.true + clock.offset
        exact = True
        m_start = wall()
        m_stop = m_start + float(d0)
        nops = 2 + tape.draw("nops", maxops)
        last_el = None
        last_ex = None
        reads = 0
        back_since_read = False
        back_between = 0
        for _ in range(nops):
            op = tape.weighted("op", [5, 5, 2, 1, 1, 1])   # read, pass, back, stall, start, restart
            if op == 1:
                d = tape.pick("pass", [0.0, 0.1, 0.25, 1.0, 1.0 / 3.0, 4.0])
                clock.true += d
                hist.append(("pass", d))
            elif op == 2:
                j = tape.pick("back", [0.05, 0.5, 3.0, 1000.0, 1e-6])
                clock.offset -= j
                exact = False
                hist.append(("back", j))
                res.faults["backward_step"] += 1
                back_since_read = True
                if last_ex:
                    res.probes["mono_expired_then_backward"] += 1
            elif op == 3:
                d = tape.pick("stall", [0.1, 1.0, 5.0])
                clock.true += d
                clock.offset -= d
                exact = False     # true + offset may round a few ulps backwards: a (tiny) retrograde step
                hist.append(("stall", d))
                res.faults["stall"] += 1
            elif op == 4:
                dur = tape.pick("dur", [None] + DURS)
                try:
                    r = timer.start(duration=dur)
                except htiming.RetroTimerError:
                    if retro:
                        raise
                    hist.append(("start-refused", dur))
                    res.probes["strict_timer_refused"] += 1
                    continue
                hist.append(("start", dur))
                cur = m_stop - m_start
                m_start = wall()
                m_stop = m_start + (float(dur) if dur is not None else cur)
                if exact and r != m_start:
                    res.violate("monotimer-arithmetic", "start() returned %r, the clock reads %r; history %s" % (r, m_start, hist[-6:]))
                    break
                if back_since_read:
                    res.probes["mono_backward_then_start"] += 1
                last_el = last_ex = None
                back_since_read = False
                continue
            elif op == 5:
                dur = tape.pick("dur", [None] + DURS)
                timer.restart(duration=dur)
                hist.append(("restart", dur))
                cur = m_stop - m_start
                m_start = m_stop
                m_stop = m_start + (float(dur) if dur is not None else cur)
                res.probes["mono_restart"] += 1
                last_el = last_ex = None
                back_since_read = False
                continue
            else:
                hist.append(("read",))
            if op != 0 and not tape.flag("read_after", 1, 2):
                continue
            if op != 0:
                hist.append(("read",))
            # reading
            try:
                el = timer.elapsed
                ex = timer.expired
            except htiming.RetroTimerError:
                if retro:
                    raise
                hist.append(("refused",))
                res.probes["strict_timer_refused"] += 1
                continue
            reads += 1
            res.comparisons += 2
            if exact:
                now = wall()
                rem, du = timer.remaining, timer.duration
                res.comparisons += 3
                tol = 1e-6 + 8 * abs(now) * 2.3e-16     # MonoTimer accumulates deltas: a few ulps of the wall value
                near = lambda a, b: abs(a - b) <= tol
                if not (near(el, now - m_start) and near(rem, m_stop - now) and near(du, m_stop - m_start) and
                        (ex == (now >= m_stop) or near(now, m_stop))):
                    res.violate("monotimer-arithmetic", "steady clock at %r: elapsed %r remaining %r expired %r duration %r; start %r stop %r give "
                                "elapsed %r remaining %r expired %r; history %s" % (now, el, rem, ex, du, m_start, m_stop, now - m_start,
                                                                                   m_stop - now, now >= m_stop, hist[-6:]))
                    break
                res.probes["mono_steady_arithmetic_checked"] += 1
            if back_since_read and last_el is not None:
                back_between += 1
                res.probes["mono_backward_between_reads"] += 1
            back_since_read = False
            if last_el is not None and el < last_el - 1e-12 * (1 + abs(last_el)):
                res.violate("monotimer-elapsed-decreased", "elapsed went %r -> %r within one period; history %s" % (last_el, el, hist[-6:]))
                break
            if last_ex is True and ex is False:
                res.violate("monotimer-expired-reverted", "expired went True -> False within one period; history %s" % (hist[-6:],))
                break
            last_el, last_ex = el, ex
    res.scenario = lambda: dict(kind="monotimer", history=hist)
    res.scen_digest = digest(["mono"] + [list(map(repr, h)) for h in hist])
    res.event_digest = res.scen_digest
    res.nontrivial = back_between >= 1 and reads >= 3
    res.faultfree = sum(res.faults.values()) == 0
    res.sim_time = clock.true
    res.steps = len(hist)


def run_case(tape, tier):
    res = Result()
    kind = tape.draw("kind", 2)
    try:
        if kind == 0:
            tymer_case(tape, tier, res)
        else:
            mono_case(tape, tier, res)
    except HarnessError:
        raise
    except Exception as ex:
        # the harness parts of these cases are plain arithmetic; an exception here comes out of the timer under test
        import traceback
        tb = traceback.extract_tb(ex.__traceback__)
        where = next((f for f in reversed(tb) if "/hio/" in f.filename), tb[-1])
        res.violate("timer-raised", "%s raised %s: %s (in %s:%d %s)" % (
            "Tymer" if kind == 0 else "MonoTimer", type(ex).__name__, str(ex)[:120], where.filename.split("/")[-1], where.lineno, where.name))
        exname = type(ex).__name__
        if res.scenario is None:
            res.scenario = lambda: dict(kind="tymer" if kind == 0 else "monotimer", raised=exname)
        if not res.scen_digest:
            res.scen_digest = digest(["raised", kind, str(ex)[:80]])
            res.event_digest = res.scen_digest
    return res
