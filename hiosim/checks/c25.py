"""
C25  Boxwork transitions run exit/enter actions in documented nested order.
"""
from ..core import Result, digest
from hio.base import doing
from hio.base.hier import boxing, Bag

PID = "C25"
ENGINE = "box"
LEVEL = "exploration"
RULE = ("Each case builds, through the public boxwork verbs (bx, do, go), 1-3 box trees of up to 10 boxes and depth 4 with 0-2 "
        "trace-recording actions per box in each of the contexts endo, exdo, rendo, rexdo (plus a precondition in predo), and "
        "transitions with unique trigger tokens between seeded pairs of boxes (sibling, cousin, ancestor, descendant, self = forced "
        "re-entry, other tree; destinations on primary and non-primary branches). A real Boxer runs it as a BoxerDoer under a real "
        "Doist in virtual time; a seeded schedule makes one (in a quarter of the cycles two) transition conditions of boxes in the "
        "active pile true per cycle (with two, the first in evaluation order - pile top down, declaration order - must be the only one taken), "
        "optionally with a failing precondition on one of the boxes to be entered, and finally 'end'. Reference model from the "
        "documentation: exits = active pile below the fork, bottom-up; retained boxes re-exit bottom-up then re-enter top-down; "
        "entries = destination pile below the fork, top-down; a box's actions in declaration order; failing precondition -> no "
        "exit/entry action and the active box unchanged; end -> every active box exits once, bottom-up. Oracle: the per-cycle "
        "action trace equals the model's. Non-trivial: >= 1 transition with >= 2 retained boxes carrying rendo/rexdo actions and "
        ">= 3 transitions fired. Distinct: digest of trees + actions + schedule.")
COMPONENTS = dict(real=["hio.base.hier.boxing.Boxer (make, run, exen, exdo/rexdo/rendo/endo, end)", "Box", "BoxerDoer", "acting.Act/Goact", "needing.Need", "hio.base.doing.Doist"],
                  stub=["nothing (virtual time)"], model=["documented transition order (in the check)"])
ASSUMPTIONS = ["afdo/redo/godo actions are not part of the compared trace (the statement is about exit/entry contexts)",
               "the order in which preconditions are evaluated is not compared, only their effect"]
PROBES = ["retained_two_plus", "forced_reentry", "other_tree", "descendant_dest", "ancestor_dest", "failing_precondition", "end_with_depth_3",
          "transition_from_nonprimary_branch", "two_conditions_true_in_one_cycle"]
BOUNDS = dict(quick=dict(boxes=10, depth=4, cycles=12), thorough=dict(boxes=12, depth=4, cycles=24))
TIERS = dict(quick=dict(cases=24000, wall=60.0), thorough=dict(cases=1000000, wall=420.0))
SIM_TIME_UNIT = "cycles"
CTX = ("endo", "exdo", "rendo", "rexdo")


def gen(tape, tier):
    maxb = 10 if tier == "quick" else 12
    nb = 2 + tape.draw("nboxes", maxb - 1)
    boxes = []     # dict(name, over, depth)
    for i in range(nb):
        name = "b%d" % i
        cands = [None] + [j for j, b in enumerate(boxes) if b["depth"] < 3]
        if i == 0:
            over = None
        else:
            # bias towards deeper trees
            over = cands[tape.draw("over", len(cands))] if tape.flag("root", 1, 6) is False or True else None
            if tape.flag("new_root", 1, 7) and sum(1 for b in boxes if b["over"] is None) < 3:
                over = None
            elif over is None:
                over = cands[1 + tape.draw("over2", len(cands) - 1)] if len(cands) > 1 else None
        depth = 0 if over is None else boxes[over]["depth"] + 1
        acts = {c: tape.draw("n_" + c, 3) for c in CTX}
        boxes.append(dict(name=name, over=over, depth=depth, acts=acts, pre=tape.flag("has_pre", 1, 2)))
    # lexical order must define overs before unders: already true (over index < i)
    nedges = 2 + tape.draw("nedges", 2 * nb)
    edges = []
    for e in range(nedges):
        s = tape.draw("src", nb)
        d = tape.draw("dst", nb)
        edges.append((s, d))
    ncyc = 3 + tape.draw("ncycles", (12 if tier == "quick" else 24) - 2)
    sched = []
    for c in range(ncyc):
        sched.append(dict(pick=tape.draw("edge_pick", 16), block=tape.flag("block", 1, 5), block_ix=tape.draw("block_ix", 4), none=tape.flag("none", 1, 6),
                          second=tape.flag("second_true", 1, 4), pick2=tape.draw("edge_pick2", 16)))
    return boxes, edges, sched


def pile_of(boxes, unders, i):
    up = []
    j = boxes[i]["over"]
    while j is not None:
        up.insert(0, j)
        j = boxes[j]["over"]
    down = []
    j = i
    while unders[j]:
        j = unders[j][0]
        down.append(j)
    return up + [i] + down


def run_case(tape, tier):
    res = Result()
    # hio keeps every act instance in class-level registries for the life of the process (ActBase.Instances); it has a hook to
    # empty them "for testing purposes".  Without it a worker grows by some 50 kB per case until its memory cap kills it.
    from hio.base.hier import acting as _acting
    _acting.ActBase._clearall()
    boxes, edges, sched = gen(tape, tier)
    nb = len(boxes)
    unders = {i: [] for i in range(nb)}
    for i, b in enumerate(boxes):
        if b["over"] is not None:
            unders[b["over"]].append(i)
    trace = []
    cur = [None]

    def rec(**iops):
        trace.append((cur[0], iops["tag"]))

    def pre(**iops):
        H = iops["H"]
        return H.block.value != iops["_box"]

    def pre2(**iops):
        # a box's second entry precondition, with a switch of its own: every attempt evaluates both from scratch
        H = iops["H"]
        return H.block2.value != iops["_box"]

    def fun(H, bx, go, do, on, at, be):
        for i, b in enumerate(boxes):
            over = None if b["over"] is None else boxes[b["over"]]["name"]
            bx(b["name"], over)
            if b["pre"]:
                do(pre, "predo")
                do(pre2, "predo")
            for c in CTX:
                for k in range(b["acts"][c]):
                    do(rec, c, tag="%s.%s.%d" % (b["name"], c, k))
            for ei, (s, d) in enumerate(edges):
                if s == i:
                    go(boxes[d]["name"], "'t%d' in H.cmd.value" % ei)

    boxer = boxing.Boxer(name="bxr", fun=fun)
    hold = boxer.hold
    hold["cmd"] = Bag(value=())
    hold["block"] = Bag(value=None)
    hold["block2"] = Bag(value=None)
    endkey = ("", "boxer", "bxr", "end")
    hold[endkey] = Bag(value=False)
    # ---- model
    model = []
    active = [0]      # model's active box index
    mpile = [pile_of(boxes, unders, 0)]
    cmds = []

    def acts_of(i, c):
        return ["%s.%s.%d" % (boxes[i]["name"], c, k) for k in range(boxes[i]["acts"][c])]
    fired = 0
    retained_max = 0
    # cycle 0 (first send): enter the first pile top down
    for i in mpile[0]:
        for t in acts_of(i, "endo"):
            model.append((0, t))
    cmds.append(dict(cmd=None, block=None, end=False))
    for c, s in enumerate(sched, start=1):
        P = mpile[0]
        last = (c == len(sched))
        if last:
            # the end flag is set before the last cycle: all active boxes exit bottom up
            cmds.append(dict(cmd=None, block=None, end=True))
            for i in reversed(P):
                for t in acts_of(i, "exdo"):
                    model.append((c, t))
            if len(P) >= 3:
                res.probes["end_with_depth_3"] += 1
            break
        avail = [ei for ei, (src, dst) in enumerate(edges) if src in P]
        if s["none"] or not avail:
            cmds.append(dict(cmd=None, block=None, end=False))
            continue
        ei = avail[s["pick"] % len(avail)]
        tokens = ["t%d" % ei]
        if s["second"] and not s["block"] and len(avail) >= 2:
            # a second transition condition is true in the same cycle: the first one in evaluation order (active pile top
            # down, a box's transitions in declaration order) is taken, and only that one
            others = [x for x in avail if x != ei]
            ej = others[s["pick2"] % len(others)]
            tokens.append("t%d" % ej)
            ei = min((ei, ej), key=lambda x: (P.index(edges[x][0]), x))
            res.probes["two_conditions_true_in_one_cycle"] += 1
        src, dst = edges[ei]
        F = pile_of(boxes, unders, dst)
        if dst in P:
            i = P.index(dst)
            res.probes["forced_reentry"] += 1
        else:
            i = 0
            while i < min(len(P), len(F)) and F[i] == P[i]:
                i += 1
        exdos = list(reversed(P[i:]))
        endos = F[i:]
        kept = P[:i]
        block = None
        if s["block"]:
            cand = [x for x in endos if boxes[x]["pre"]]
            if cand:
                block = boxes[cand[s["block_ix"] % len(cand)]]["name"]
        cmds.append(dict(cmd=tuple(tokens), block=block, which=(s["pick"] // 4 + s["block_ix"]) % 2, end=False))
        if block is not None:
            res.probes["failing_precondition"] += 1
            res.faults["failing_precondition"] += 1
            continue
        fired += 1
        for x in exdos:
            for t in acts_of(x, "exdo"):
                model.append((c, t))
        for x in reversed(kept):
            for t in acts_of(x, "rexdo"):
                model.append((c, t))
        for x in kept:
            for t in acts_of(x, "rendo"):
                model.append((c, t))
        for x in endos:
            for t in acts_of(x, "endo"):
                model.append((c, t))
        k2 = sum(1 for x in kept if boxes[x]["acts"]["rendo"] or boxes[x]["acts"]["rexdo"])
        retained_max = max(retained_max, k2)
        if not kept and P[0] != F[0]:
            res.probes["other_tree"] += 1
        if dst not in P and src in pile_of(boxes, unders, dst)[:-1] and len(F) > 0 and P[:len(kept)] == F[:len(kept)] and boxes[dst]["depth"] > boxes[src]["depth"]:
            res.probes["descendant_dest"] += 1
        if dst in P and P.index(dst) < P.index(src):
            res.probes["ancestor_dest"] += 1
        if P != pile_of(boxes, unders, src):
            res.probes["transition_from_nonprimary_branch"] += 1
        mpile[0] = F
        active[0] = dst
    # ---- run hio
    cyc = [0]

    class Commander(doing.Doer):
        def recur(s, tyme):
            c = cyc[0]
            if c < len(cmds):
                k = cmds[c]
                hold.cmd.value = k["cmd"] or ()
                # which of the box's two preconditions refuses the entry
                hold.block.value = k["block"] if not k.get("which") else None
                hold.block2.value = k["block"] if k.get("which") else None
                hold[endkey].value = k["end"]
            cur[0] = c
            cyc[0] += 1
            return c >= len(cmds) + 1

    err = None
    bdoer = boxing.BoxerDoer(boxer=boxer, tock=0.0)
    prior = None
    if tape.flag("prior_interrupted_run", 1, 4):
        # BoxerDoer.enter() makes the boxwork anew each time and so cannot be entered twice; for this history the boxer is
        # driven by the same three lines without the second make()
        class OnceMadeBoxerDoer(doing.Doer):
            made = False

            def enter(s, *, temp=None):
                if not s.made:
                    boxer.make(temp=temp)
                    type(s).made = True
                boxer.wind(s.tymth)

            def recur(s, tock=None):
                done = yield from boxer.run(tock=tock if tock is not None else s.tock)
                return done
        bdoer = OnceMadeBoxerDoer(tock=0.0)
        # history: the same boxer (and doer) already ran once and was cut off by a limit while boxes were active, after a few
        # transitions; nothing of that run may leak into the measured one
        k = 2 + tape.draw("prior_cycles", 4)
        picks = [tape.draw("prior_pick", 64) for _ in range(k)]
        prior = dict(cycles=k, picks=picks)

        class Prior(doing.Doer):
            def recur(s, tyme):
                i = int(tyme)
                hold.cmd.value = ("t%d" % (picks[i % len(picks)] % max(1, len(edges))),) if i < len(picks) else ()
                hold.block.value = None
                hold[endkey].value = False
                return False
        cur[0] = None
        try:
            doing.Doist(tock=1.0, real=False, limit=float(k)).do(doers=[Prior(tock=0.0), bdoer])
        except Exception as ex:
            err = "prior run: %s: %s" % (type(ex).__name__, str(ex)[:100])
        hold.cmd.value = ()
        hold.block.value = None
        hold[endkey].value = False
        res.faults["prior_run_cut_off_by_limit"] += 1
        del trace[:]
    doist = doing.Doist(tock=1.0, real=False, limit=len(cmds) + 4)
    try:
        if err is None:
            doist.do(doers=[Commander(tock=0.0), bdoer])
    except Exception as ex:
        import traceback
        tb = traceback.extract_tb(ex.__traceback__)
        err = "%s: %s (in %s)" % (type(ex).__name__, str(ex)[:100], tb[-1].name if tb else "?")
    res.steps = len(cmds)
    res.sim_time = float(len(cmds))
    res.comparisons = len(model) + 1
    got = [t for t in trace if t[0] is not None]
    res.scenario = lambda: dict(boxes=[dict(name=b["name"], over=None if b["over"] is None else boxes[b["over"]]["name"], acts=b["acts"], pre=b["pre"]) for b in boxes],
                                edges=[(boxes[s]["name"], boxes[d]["name"], "t%d" % i) for i, (s, d) in enumerate(edges)], commands=cmds, prior_run=prior,
                                trace=got[:80], model=model[:80])
    res.scen_digest = digest(dict(b=[(b["over"], b["acts"], b["pre"]) for b in boxes], e=edges, c=cmds, p=prior))
    res.event_digest = digest(dict(t=got, e=err))
    if err:
        res.violate("boxwork-raised", "running the boxwork raised %s" % err)
    elif got != model:
        k = next((i for i in range(min(len(got), len(model))) if got[i] != model[i]), min(len(got), len(model)))
        c = (got[k][0] if k < len(got) else model[k][0])
        gc = [t for cc, t in got if cc == c]
        mc = [t for cc, t in model if cc == c]
        kind = "boxwork-end-order" if cmds[c]["end"] else "boxwork-transition-order"
        res.violate(kind, "cycle %d (%s): actions ran %s, documented order is %s" % (
            c, "end" if cmds[c]["end"] else "transition %s" % (cmds[c]["cmd"],), gc, mc))
    if retained_max >= 2:
        res.probes["retained_two_plus"] += 1
    res.nontrivial = retained_max >= 2 and fired >= 3
    res.faultfree = not res.faults
    return res
