"""
C10  Connection-level socket faults never escape servicing.
"""
from ..core import CaseTimeout as _CaseTimeout
import errno
from .. import netlab, rawpeer, net as netmod
from ..core import Result, digest

PID = "C10"
ENGINE = "net"
LEVEL = "fault_enumeration"
RULE = ("Each case runs a real hio Server/ServerTls with an echo loop and two Clients/ClientTls exchanging seeded payloads on "
        "the fake kernel (light partial-I/O noise). One fault is placed inside the exchange: an errno from the property's list "
        "(ECONNRESET EPIPE ENETRESET ENETUNREACH EHOSTUNREACH ENETDOWN EHOSTDOWN ETIMEDOUT ECONNREFUSED, or SSL EOF for TLS) at "
        "a tape-chosen call index of send / recv (plain: socket level; TLS: SSLSocket level and transport level, which lands in "
        "do_handshake for small indices) on the client side or on the server side, either as the first sign of a connection that is really gone (both ends reset) or as a one-shot failure after which the socket stays usable; or a real peer event: client close (FIN), client "
        "close with unread data (RST), client vanishing mid-handshake, client resetting its connection and at once reconnecting from the same port and dropping that handshake, server-side remoter closed. The thorough tier additionally "
        "sweeps every (errno, op, side, call index < 6, plain/TLS) combination once. Oracle: no service() call raises; the endpoint "
        "that met the fault is marked cutoff - the client right after the service() call in which it fired, on the server side the very remoter whose socket failed - (server-side handshake: aborted; client-side handshake: not connected and cutoff or "
        "closed); the other connection's echo traffic completes within the drain bound, and (plain, server-side fault) if it had bytes waiting in the very service round of the fault it was read in that round. A peer reset may come right behind data the server has not read yet; a connection whose peer reset it is marked and stays in .ixes (dropping it unmarked, with what it had received, is what happens to unclassified errors only). Non-trivial: the fault fired while payload "
        "bytes or handshake records of that connection were in flight. Distinct: digest of (config, fault, executed actions).")
COMPONENTS = dict(real=["hio.core.tcp.clienting.Client/ClientTls", "hio.core.tcp.serving.Server/ServerTls/Remoter/RemoterTls", "OpenSSL engine"],
                  stub=["kernel sockets (FakeSocket)", "SSLSocket glue (SimSSLSocket)"])
ASSUMPTIONS = ["an injected connection-level errno means that connection is really gone (both ends are reset) in half of the cases; in the other half the call fails once and the socket stays usable, so that only the endpoint's reaction to that one call can mark it",
               "errnos are injected at every call kind the statement lists, including combinations a real kernel rarely produces (EPIPE on recv)"]
PROBES = ["fault_in_handshake_client", "fault_in_handshake_server", "fault_on_send", "fault_on_recv", "peer_fin", "peer_rst",
          "client_vanishes_mid_handshake", "errno_EPIPE", "ssl_eof", "sibling_echo_completed"]
BOUNDS = dict(quick=dict(payloads=4, call_index=8), thorough=dict(payloads=6, call_index=12))
TIERS = dict(quick=dict(cases=20000, wall=60.0), thorough=dict(cases=500000, wall=420.0))
SIM_TIME_UNIT = "net steps"

ERRNOS = netmod.CONN_ERRNOS
UNLISTED = [errno.ECONNABORTED, errno.ENOBUFS, errno.EIO]


def sweep_table():
    out = []
    for tls in (False, True):
        codes = ERRNOS + ([netmod.SSL_EOF] if tls else [])
        for code in codes:
            for side in ("client0", "server"):
                ops = ["send", "recv"] + (["tls_send", "tls_recv", "tls_handshake"] if tls else [])
                for op in ops:
                    if code == netmod.SSL_EOF and not op.startswith("tls_"):
                        continue
                    for idx in range(6):
                        out.append((tls, code, side, op, idx))
    return out


_SWEEP = sweep_table()


def run_case(tape, tier):
    res = Result()
    sweep = tier == "thorough" and tape.flag("sweep", 1, 8)
    if sweep:
        tls, code, side, op, idx = _SWEEP[tape.draw("sweep_ix", len(_SWEEP))]
        fault = dict(kind="errno", code=code, side=side, op=op, idx=idx, one_shot=tape.flag("one_shot", 1, 2))
    else:
        tls = tape.flag("tls", 1, 2)
        kind = ["errno", "errno", "errno", "peer_fin", "peer_rst", "vanish_handshake", "server_closes_remoter",
                "reset_reconnect_abort"][tape.draw("fault_kind", 8)]
        if kind in ("vanish_handshake", "reset_reconnect_abort") and not tls:
            kind = "peer_rst"
        fault = dict(kind=kind)
        if kind == "errno":
            codes = ERRNOS + ([netmod.SSL_EOF] * 2 if tls else [])
            fault["code"] = tape.pick("errno", codes)
            fault["side"] = tape.pick("side", ["client0", "server"])
            ops = ["send", "recv"] + (["tls_send", "tls_recv", "tls_handshake"] if tls else [])
            if fault["code"] == netmod.SSL_EOF:
                ops = ["tls_send", "tls_recv", "tls_handshake"]
            fault["op"] = tape.pick("op", ops)
            if fault["side"] == "server" and fault["op"] == "recv" and tape.flag("unlisted_errno", 1, 4):
                # an errno outside the property's list on a server-side recv: hio drops that connection
                # (Server.serviceReceivesAllIx); the statement's other half still applies: no raise, the others go on
                fault["code"] = tape.pick("unlisted", UNLISTED)
            fault["idx"] = tape.draw("call_idx", 8 if tier == "quick" else 12)
            fault["one_shot"] = tape.flag("one_shot", 1, 2)     # the call fails once, the socket stays usable
        else:
            fault["at_step"] = tape.draw("at_step", 40)
    bs = tape.pick("bs", [8096, 64, 7])
    rates = dict(partial=tape.pick("r_partial", [0, 2, 6]), short=tape.pick("r_short", [0, 2, 6]),
                 delay=tape.pick("r_delay", [0, 2, 6]), send_eagain=tape.pick("r_seagain", [0, 2]))
    npay = 1 + tape.draw("npay", 4 if tier == "quick" else 6)
    sizes = [[tape.pick("size", [1, 5, 40, 300, 2000]) for _ in range(npay)] for _c in range(2)]
    cfg = dict(tls=tls, bs=bs, rates=rates, fault={k: (v if not isinstance(v, int) or k in ("idx", "at_step") else errno.errorcode.get(v, v))
                                                    for k, v in fault.items()}, sizes=sizes)
    actions = []
    raised = []

    wirelog = tape.flag("wirelog_attached", 1, 3)      # a wire log (debugging aid) attached to server and clients
    with netlab.Lab(tape, res, tls=tls, bs=bs, rates=rates, wirelog=wirelog) as lab:
        net = lab.net
        net.strict_peername = True
        net.injected = []
        orig_after = netmod.FakeSocket._after_injected_errno
        lab.make_server()
        lab.make_client()
        lab.make_client()
        if fault["kind"] == "errno":
            net.errno_plan[(fault["op"], fault["side"])] = [fault["idx"], fault["code"]]
            net.errno_one_shot = bool(fault.get("one_shot"))
        sent = [bytearray(), bytearray()]
        nxt = [0, 0]
        remoters = {}        # sid -> remoter (server side objects ever seen)
        stopped = [False, False]   # client no longer serviced by the check (after a handshake fault we look at it at once)
        fired = [None]       # (owner, sid, op) of the injected fault when it fires
        skipped = []         # siblings not serviced in the round of the fault
        inflight_at_fault = [False]
        snap = [None]
        established = [None]  # the server side remoter of client 0's established connection when the peer reset it

        def track():
            srv = lab.server
            for rm in list(srv.ixes.values()) + list(getattr(srv, "cxes", {}).values()):
                cs = rm.cs
                if cs is not None:
                    remoters[cs.sid] = rm

        def fault_pending():
            return fault["kind"] == "errno" and (fault["op"], fault["side"]) in net.errno_plan

        def note_fire(owner_before_pending):
            if fault["kind"] == "errno" and fired[0] is None and owner_before_pending and not fault_pending():
                # which socket was hit: the one that got reset last
                fired[0] = True

        def unread_by_socket():
            out = {}
            for rm in list(lab.server.ixes.values()):
                raw = getattr(rm.cs, "sock", rm.cs) if rm.cs is not None else None
                if raw is not None and raw.inp is not None and getattr(rm, "connected", True) and not rm.cutoff:
                    out[raw.sid] = (raw, len(raw.inp.rx), raw.inp.total_read)
            return out

        def service(who, i=None):
            pend = fault_pending()
            before = unread_by_socket() if (who == "server" and pend and fault["side"] == "server" and not tls) else None
            try:
                if who == "server":
                    lab.svc_server()
                    if before is not None and not fault_pending():
                        # the round in which one connection failed: the others, if they had bytes waiting, were still read
                        for sid, (raw, n0, read0) in before.items():
                            if not raw.got_injected and n0 > 0 and raw.inp.total_read == read0 and raw.state == "connected":
                                skipped.append("connection from port %s had %d unread bytes in the service round in which another "
                                               "connection failed with %s and was not read in that round" % (
                                                   raw.raddr[1] if raw.raddr else "?", n0, cfg["fault"].get("code")))
                    for ca, ix in list(lab.server.ixes.items()):
                        if ix.rxbs and not ix.cutoff:
                            ix.tx(bytes(ix.rxbs))
                            ix.clearRxbs()
                else:
                    lab.svc_client(i)
            except _CaseTimeout:
                raise
            except BaseException as ex:   # the property: servicing does not raise
                raised.append((who if i is None else "client%d" % i, type(ex).__name__, str(ex)[:120]))
                return False
            finally:
                track()
            if pend and not fault_pending():
                fired[0] = (who if i is None else "client%d" % i)
                inflight_at_fault[0] = True
                if i is not None:
                    c = lab.clients[i]
                    # state right after the service() call in which the fault fired (a later call may reconnect)
                    snap[0] = dict(connected=c.connected, cutoff=c.cutoff, closed=c.cs is None)
            return True

        def do_tx(i):
            k = nxt[i]
            if k >= len(sizes[i]) or stopped[i]:
                return
            c = lab.clients[i]
            data = bytes(((i * 0x40) + ((len(sent[i]) + j) * 5 & 0x3f)) for j in range(sizes[i][k]))
            c.tx(data)
            sent[i].extend(data)
            nxt[i] = k + 1

        acts = [("svc_client", 0), ("svc_client", 1), ("svc_server", 0), ("net", 0), ("tx", 0), ("tx", 1)]
        weights = [4, 4, 5, 5, 2, 2]
        nsteps = 30 + tape.draw("nsteps", 60)
        peer_event_done = False
        affected = None      # index of the client whose connection met the fault (0/1), if known
        for step in range(nsteps):
            if raised:
                break
            if fault["kind"] != "errno" and not peer_event_done and step == fault["at_step"]:
                peer_event_done = True
                c = lab.clients[0]
                if fault["kind"] == "peer_fin":
                    if c.cs is not None:
                        c.clearRxbs()
                        # a clean close: nothing unread at the kernel level -> FIN
                        raw = getattr(c.cs, 'sock', c.cs)
                        if raw.inp is not None:
                            del raw.inp.rx[:]
                        lab.as_owner("client0", c.close)
                        res.faults["peer_fin"] += 1
                elif fault["kind"] == "peer_rst":
                    if c.cs is not None:
                        raw = getattr(c.cs, 'sock', c.cs)
                        rm0 = lab.remoter_for(0)
                        if rm0 is not None and rm0 in lab.server.ixes.values() and c.connected:
                            established[0] = rm0
                        if raw.state == "connected" and c.connected and tape.flag("data_then_rst", 1, 2):
                            # last words: data that reaches the server's socket before the RST and is still unread there
                            c.tx(b"last words before the reset")
                            try:
                                lab.svc_client(0)
                            except OSError:
                                pass
                            net.step()
                            res.faults["data_then_rst"] += 1
                        if raw.state == "connected":
                            net.rst(raw.peer)
                            raw.state = "closed"
                            res.faults["peer_rst"] += 1
                elif fault["kind"] == "reset_reconnect_abort":
                    # the peer resets its established connection, reconnects from the same port and drops the new TLS
                    # handshake, all before the server's next service round: the server accepts a connection whose
                    # address it still holds an (unnoticed dead) established connection for, and the handshake aborts
                    if c.cs is not None and c.connected:
                        raw = getattr(c.cs, 'sock', c.cs)
                        if raw.state == "connected":
                            net.rst(raw.peer)
                            raw.state = "closed"
                            res.faults["peer_rst"] += 1
                            again = rawpeer.RawClient(net, lab.port, "client0")
                            again.step()
                            if again.connected:
                                again.sock.close()
                                res.faults["reconnect_from_same_port_then_abort"] += 1
                    elif c.cs is not None:
                        # not established yet: the client just goes away (as in vanish_handshake)
                        lab.as_owner("client0", c.close)
                        res.faults["client_vanishes_mid_handshake"] += 1
                elif fault["kind"] == "vanish_handshake":
                    if c.cs is not None and not c.connected:
                        lab.as_owner("client0", c.close)
                        res.faults["client_vanishes_mid_handshake"] += 1
                    elif c.cs is not None:
                        lab.as_owner("client0", c.close)
                        res.faults["peer_fin"] += 1
                elif fault["kind"] == "server_closes_remoter":
                    rm = lab.remoter_for(0)
                    if rm is not None:
                        lab.as_owner("server", lab.server.removeIx, rm.ca)
                        res.faults["server_closes_remoter"] += 1
                stopped[0] = fault["kind"] != "server_closes_remoter"
                affected = 0
                actions.append(("peer_event", 0))
                continue
            a = acts[tape.weighted("actor", weights)]
            actions.append(a)
            res.steps += 1
            if a[0] == "svc_client":
                if not stopped[a[1]]:
                    service("client", a[1])
            elif a[0] == "svc_server":
                service("server")
            elif a[0] == "net":
                net.step()
            else:
                do_tx(a[1])
        # ---- drain
        net.faults_on = False
        if not raised:
            for rounds in range(400):
                for i in (0, 1):
                    do_tx(i)
                    if not stopped[i]:
                        service("client", i)
                service("server")
                net.step()
                res.steps += 1
                if raised:
                    break
        # ---- oracles
        if raised:
            who, tname, msg = raised[0]
            res.violate("service-raised", "%s.service() raised %s: %s (fault %s)" % (who, tname, msg, cfg["fault"]))
        elif skipped:
            res.violate("sibling-skipped", skipped[0])
        else:
            # which connection was affected?
            if fault["kind"] == "errno" and fired[0] is not None:
                hit = [s for s in net.sockets if s.reset and s.reset_seen and s.owner == fault["side"]]
                # client side: owner client0 -> client 0.  server side: find the remoter whose socket was reset
                if fault["side"] == "client0":
                    affected = 0
                    res.comparisons += 1
                    sn = snap[0]
                    if sn is not None and not (sn["cutoff"] or (not sn["connected"] and sn["closed"])):
                        res.violate("not-marked", "client met %s at %s but right after that service() call it is %s" % (
                            cfg["fault"]["code"], fault["op"], sn))
                else:
                    # server side: a remoter (or handshaking remoter) must be marked
                    marked = [rm for rm in lab.remoters if rm.cutoff or getattr(rm, "aborted", False) or
                              (fault["code"] in UNLISTED and rm.cs is None)]     # dropped and closed counts for an unlisted errno
                    res.comparisons += 1
                    if not marked:
                        res.violate("not-marked", "server side met %s but no remoter is cutoff/aborted" % (cfg["fault"],))
                    else:
                        # the very remoter whose socket failed must be the marked one (or closed and dropped)
                        for rm in lab.remoters:
                            raw = getattr(rm.cs, "sock", rm.cs) if rm.cs is not None else None
                            if raw is not None and raw.got_injected and raw.state != "closed" and not (rm.cutoff or getattr(rm, "aborted", False)):
                                res.violate("not-marked", "server side met %s on the connection from %s but that remoter is cutoff=%s aborted=%s" % (
                                    cfg["fault"], rm.ca, rm.cutoff, getattr(rm, "aborted", None)))
                    # the affected client is the one whose peer socket was reset / got the injected error
                    for i in (0, 1):
                        c = lab.clients[i]
                        raw = getattr(c.cs, 'sock', c.cs) if c.cs is not None else None
                        if raw is not None and (raw.reset or (raw.peer is not None and raw.peer.got_injected)):
                            affected = i
                    if affected is None:
                        for s_ in net.sockets:
                            if s_.got_injected and s_.peer is not None and s_.peer.owner in ("client0", "client1"):
                                affected = int(s_.peer.owner[-1])
            elif fault["kind"] in ("peer_fin", "peer_rst", "vanish_handshake", "reset_reconnect_abort") and peer_event_done:
                # the server side remoter of client 0 must be cutoff (or aborted / never created)
                res.comparisons += 1
                # remoters the server still holds whose socket's peer belongs to client 0 (a remoter that was
                # replaced by a newer connection from the same address is no longer serviced: C11's business)
                held = list(lab.server.ixes.values()) + list(getattr(lab.server, "cxes", {}).values())
                rms = []
                for rm in held:
                    raw = getattr(rm.cs, "sock", rm.cs) if rm.cs is not None else None
                    if raw is not None and raw.peer is not None and raw.peer.owner == "client0":
                        rms.append(rm)
                bad = [rm for rm in rms if not (rm.cutoff or getattr(rm, "aborted", False) or rm.cs is None)]
                if bad:
                    res.violate("not-marked", "client 0 went away (%s) but its server-side remoter is cutoff=%s aborted=%s" % (
                        fault["kind"], bad[0].cutoff, getattr(bad[0], "aborted", None)))
                rm0 = established[0]
                if rm0 is not None and not rm0.cutoff and lab.server.ixes.get(rm0.ca) is not rm0 and \
                        lab.server.ixes.get(rm0.ca) is None:
                    # a peer reset is one of the classified faults: the connection is marked and stays with the server for
                    # the application to look at and remove; dropping it unmarked is what happens to unclassified errors
                    res.violate("dropped-not-marked", "client 0 reset its established connection; the server dropped the "
                                "remoter for %s from .ixes without marking it cutoff (what it had received is gone with it)" % (rm0.ca,))
            elif fault["kind"] == "server_closes_remoter" and peer_event_done:
                c = lab.clients[0]
                res.comparisons += 1
                if c.connected and not c.cutoff and res.faults.get("server_closes_remoter"):
                    res.violate("not-marked", "server closed the connection but client 0 cutoff is False")
            # the healthy connection(s): echo must be complete
            for i in (0, 1):
                if i == affected:
                    continue
                c = lab.clients[i]
                res.comparisons += 1
                if bytes(c.rxbs) != bytes(sent[i]):
                    res.violate("sibling-starved", "client %d (not the one that met the fault %s) got %d of %d echoed bytes; "
                                "connected=%s cutoff=%s" % (i, cfg["fault"], len(c.rxbs), len(sent[i]), c.connected, c.cutoff))
                else:
                    res.probes["sibling_echo_completed"] += 1
        events = list(net.events)
        sim_now = net.now
    # probes
    if fault["kind"] == "errno" and fired[0] is not None:
        op = fault["op"]
        if op == "tls_handshake" or (tls and op in ("send", "recv") and fault["idx"] < 4):
            res.probes["fault_in_handshake_%s" % ("client" if fault["side"] == "client0" else "server")] += 1
        if op.endswith("send"):
            res.probes["fault_on_send"] += 1
        if op.endswith("recv"):
            res.probes["fault_on_recv"] += 1
        if fault["code"] == errno.EPIPE:
            res.probes["errno_EPIPE"] += 1
        if fault["code"] == netmod.SSL_EOF:
            res.probes["ssl_eof"] += 1
    for k in ("peer_fin", "peer_rst", "client_vanishes_mid_handshake"):
        if res.faults.get(k):
            res.probes[k] += 1
    res.scenario = lambda: dict(config=cfg, actions=["%s%d" % a for a in actions][:200], raised=raised, faults=dict(res.faults))
    res.scen_digest = digest(dict(c=cfg, a=actions))
    res.event_digest = digest([list(map(str, e)) for e in events if not tls or e[1] not in ("send", "recv")] + [raised, sorted(res.faults.items())])
    fault_fired = (fault["kind"] == "errno" and fired[0] is not None) or (fault["kind"] != "errno" and peer_event_done)
    res.faultfree = not fault_fired
    res.nontrivial = bool(fault_fired and (sum(len(s) for s in sent) > 0))
    res.sim_time = float(sim_now)
    return res
