"""
C15  Server-sent events are delivered exactly regardless of line endings and splits.
"""
from .. import httpgen
from ..core import Result, digest
from ..models import sse
from hio.core.http import clienting as hclienting

PID = "C15"
ENGINE = "http"
LEVEL = "exploration"
RULE = ("Each case builds an event stream from a spec-level description: 1-6 events with optional id, optional event name, 1-4 "
        "data lines (at least one non-empty; values with leading spaces, colons, unicode) or none at all (a block that dispatches nothing), optional retry (ASCII digits), comment "
        "lines, unknown fields, fields without a colon; every line is terminated by a seeded choice of CRLF, LF or CR. The stream "
        "is delivered to hio's real Respondent as the body of a text/event-stream response, close-delimited or chunked with "
        "seeded chunk boundaries, in a seeded read fragmentation (cuts between CR and LF forced often), parse() after every "
        "read, close() at the end. Oracle: respondent.events (id, name, data in order), last event id and retry equal the "
        "reference dispatch of the logical line list (WHATWG algorithm, models/sse.py). One case in twelve runs the whole http Client, "
        "set up to reconnect on its own, over the fake kernel (one service pass per simulated millisecond, connects take a second pass): a "
        "subscription of 2-3 such streams, each cut by the server (FIN) once the client's retry period is over; the client must come back "
        "(when it has a last event id to resume from), carry that id as Last-Event-ID, and yield the events of all streams in order. Non-trivial: >= 2 events, >= 2 "
        "different terminators in the stream and >= 1 read boundary inside a CRLF or right after a CR. Distinct: digest of "
        "(stream bytes, framing, cuts).")
COMPONENTS = dict(real=["hio.core.http.httping.EventSource.parseEvents/parseLine/parseChunk", "hio.core.http.clienting.Respondent.parseHead/parseBody"],
                  stub=["the reads (seeded partition)"], model=["hiosim/models/sse.py"])
ASSUMPTIONS = ["outside the generated domain (spec and statement silent or ambiguous): events whose data lines are all empty, BOM, NUL in id, "
               "non-digit retry, a stream that ends in the middle of an event",
               "an absent id is compared as '' and an absent event name as ''"]
PROBES = ["cr_only_terminators", "cut_between_cr_and_lf", "cut_right_after_cr", "chunked_delivery", "multi_line_data", "comment_lines",
          "id_persists_across_events", "retry_set", "block_without_data", "client_level_reconnect", "subscription_without_id_not_resumed"]
BOUNDS = dict(quick=dict(events=6), thorough=dict(events=10))
TIERS = dict(quick=dict(cases=100000, wall=60.0), thorough=dict(cases=4000000, wall=420.0))
SIM_TIME_UNIT = "reads"

VALS = ["x", "hello world", " lead", "a:b", "", "é中", "0", "{\"k\": 1}", "data: nested", "tab\tin"]
EOLS = [b"\r\n", b"\n", b"\r"]


def gen_stream(tape, maxev):
    lines = []
    nev = 1 + tape.draw("nevents", maxev)
    eol_mode = tape.pick("eol_mode", ["mixed", "mixed", "crlf", "lf", "cr"])
    for e in range(nev):
        pre = []
        if tape.flag("comment", 1, 4):
            pre.append(":" + tape.pick("cval", ["", " keepalive", "x:y"]))
        if tape.flag("has_id", 1, 3):
            pre.append("id:" + tape.pick("idsp", ["", " "]) + tape.pick("idv", ["1", "abc", "", "7 7"]))
        if tape.flag("has_name", 1, 3):
            pre.append("event:" + tape.pick("nsp", ["", " "]) + tape.pick("namev", ["update", "msg", "x y"]))
        if tape.flag("has_retry", 1, 6):
            pre.append("retry:" + tape.pick("rsp", ["", " "]) + tape.pick("retryv", ["5", "1000", "030"]))
        if tape.flag("unknown", 1, 6):
            pre.append(tape.pick("unk", ["foo: bar", "datax: 1", "nocolon", "Data: upper"]))
        nd = 1 + tape.geometric("ndata", 3, 1, 2)
        if tape.flag("no_data", 1, 6):
            nd = 0        # a block without any data line (named keep-alive, bare id/retry update, or just a blank line): dispatches nothing
        datas = []
        for k in range(nd):
            datas.append(tape.pick("dval", VALS))
        if datas and all(d == "" for d in datas):
            datas[0] = "z"
        dl = []
        for d in datas:
            if d == "" and tape.flag("data_nocolon", 1, 2):
                dl.append("data")
            else:
                dl.append("data:" + tape.pick("dsp", [" ", "", " "]) + d)
        body = pre + dl
        if len(body) > 1 and tape.flag("shuffle", 1, 3):
            i = tape.draw("swap", len(body) - 1)
            body[i], body[i + 1] = body[i + 1], body[i]
        lines.extend(body)
        lines.append("")
    out = bytearray()
    terms = []
    for ln in lines:
        t = EOLS[tape.draw("eol", 3)] if eol_mode == "mixed" else {"crlf": b"\r\n", "lf": b"\n", "cr": b"\r"}[eol_mode]
        if ln == "" and t == b"\n" and terms and terms[-1] == b"\r":
            t = b"\r"     # CR then LF would read as one CRLF: not the two line ends meant here
        terms.append(t)
        out += ln.encode("utf-8") + t
    import re
    toks = re.split("\r\n|\n|\r", bytes(out).decode("utf-8"))
    if toks[:-1] != lines or toks[-1] != "":
        from ..core import HarnessError
        raise HarnessError("generated stream does not tokenize into the intended lines")
    return lines, bytes(out), terms


class HarnessErrorLike(Exception):
    pass


class _Skip(Exception):
    pass


def _dataless_block(lines):
    """a non-empty block (between blank lines) that has an event/id/retry line but no data line"""
    block = []
    for ln in lines:
        if ln == "":
            if block and not any(x.startswith("data") for x in block) and any(x.startswith(("event", "id", "retry")) for x in block):
                return True
            block = []
        else:
            block.append(ln)
    return False


def client_case(tape, tier, res):
    """the whole http Client, set up to reconnect on its own, over the fake kernel: an event stream that the server cuts (FIN
    after everything it had to say went out) one or two times; the client comes back when its retry period is over, asks again
    (with the last event id it saw) and goes on yielding the events of the resumed stream"""
    import re
    from .. import netlab, rawpeer
    nstreams = 2 + tape.draw("nstreams", 2)
    streams = []
    for j in range(nstreams):
        lines, stream, _terms = gen_stream(tape, 3)
        lines = [ln for ln in lines]
        streams.append((lines, stream))
    # the server cuts a stream only after the client's current retry period (100 ms unless a stream said otherwise) is over: a
    # second outage inside the retry period is DESIGN 6.4 (the resumed stream is lost on the unchanged tree)
    holds = []
    r_ms = 100
    for j in range(nstreams):
        rv = sse.dispatch(streams[j][0])[2]
        holds.append((10 if j == 0 else r_ms + 20) + tape.pick("hold_before_cut", [0, 1, 5, 50]))
        if rv is not None:
            r_ms = rv
    tyme = [0.0]
    raised = []
    heads = []
    # (every connect takes at least one more service pass - EINPROGRESS first - as non-blocking connects do; a connect that
    # completes in the very pass of the reopen is DESIGN 6.4)
    with netlab.Lab(tape, res, wirelog=False, rates=dict(short=tape.pick("r_short", [0, 4, 10]), inprogress=16)) as lab:
        net = lab.net
        net.fresh_ports = True
        srv = rawpeer.RawServer(net, lab.port)
        net.current_owner = "client0"
        client = hclienting.Client(hostname="127.0.0.1", port=lab.port, tymth=lambda: tyme[0], reconnectable=True, tymeout=0.004)
        client.reopen()
        net.current_owner = None
        client.request(method="GET", path="/stream")
        # one service pass per simulated millisecond: the shortest retry period a stream may set here (5 ms) is longer than a
        # connect takes (two passes), as any usable retry period is

        def behave(c):
            st = c["state"]
            while b"\r\n\r\n" in c["rx"] and len(heads) < nstreams:
                i = c["rx"].index(b"\r\n\r\n")
                heads.append(bytes(c["rx"][:i + 4]))
                del c["rx"][:i + 4]
                j = len(heads) - 1
                data = b"HTTP/1.1 200 OK\r\nContent-Type: text/event-stream\r\nCache-Control: no-cache\r\n\r\n" + streams[j][1]
                cuts = sorted(set(1 + tape.draw("frag_at", max(1, len(data) - 1)) for _ in range(tape.draw("nfrag", 4)))) if len(data) > 1 else []
                b = [0] + cuts + [len(data)]
                st["queue"] = [data[b[k]:b[k + 1]] for k in range(len(b) - 1)]
                st["cut"] = j < nstreams - 1
                st["hold"] = holds[j]
            q = st.get("queue")
            if q and not c["out"]:
                c["out"].extend(q.pop(0))
            if q is not None and not q and not c["out"] and st.get("cut"):
                if st["hold"] > 0:
                    st["hold"] -= 1
                else:
                    c["fin"] = True
                    st["cut"] = False
                    res.faults["event_stream_cut_by_server"] += 1
        want = []
        for lines, _s in streams:
            want += sse.dispatch(lines)[0]
        for step in range(400 + 1200 * nstreams):
            res.steps += 1
            tyme[0] += 0.001
            net.current_owner = "client0"
            try:
                client.service()
            except Exception as ex:
                raised.append("%s: %s" % (type(ex).__name__, str(ex)[:120]))
                net.current_owner = None
                break
            net.current_owner = None
            srv.step(behave)
            net.step()
            if len(heads) == nstreams and len(client.events) >= len(want) and step > 20:
                break
        got = [dict(id=e["id"] if e["id"] is not None else "", name=e["name"], data=e["data"]) for e in client.events]
        events = list(net.events)
    res.comparisons = len(want) + nstreams
    res.sim_time = tyme[0]
    res.scenario = lambda: dict(mode="client", streams=[ln for ln, _s in streams], holds=holds, raised=raised,
                                request_heads=[h.decode("latin1") for h in heads])
    res.scen_digest = digest(dict(m="client", s=[s.decode("latin1") for _l, s in streams], h=holds))
    res.event_digest = digest(dict(g=got, r=raised, e=[list(map(str, e)) for e in events]))
    res.probes["client_level_reconnect"] += 1
    if raised:
        res.violate("sse-raised", "Client.service() raised %s" % raised[0])
        return res
    # hio resumes a subscription only when it has a last event id to resume from (Client.service): after a cut stream that
    # (with the ones before it) never set an id nothing more is expected
    expect = 1
    seen_id = False
    for j in range(nstreams - 1):
        seen_id = seen_id or any(ln.partition(":")[0] == "id" for ln in streams[j][0])
        if not seen_id:
            break
        expect += 1
    if expect < nstreams:
        res.probes["subscription_without_id_not_resumed"] += 1
        nstreams = expect
        streams = streams[:expect]
        want = []
        for lines, _s in streams:
            want += sse.dispatch(lines)[0]
        got = got[:len(want)] if len(heads) <= expect else got
    if len(heads) < nstreams:
        res.violate("sse-client-did-not-come-back", "the server cut the event stream %d time(s); the client asked %d time(s) in all within "
                    "%d service rounds of 1 ms (retry periods are 5 to 1000 ms)" % (nstreams - 1, len(heads), res.steps))
        return res
    # what each request carried as Last-Event-ID: the last id seen in the streams before it
    last = None
    for j in range(nstreams):
        m = re.search(rb"(?im)^last-event-id: *(.*?)\r?$", heads[j])
        carried = m.group(1).decode("utf-8", "replace") if m else None
        if carried != last and not (last == "" and carried is None):
            res.violate("sse-last-event-id", "request %d carried Last-Event-ID %r, the last id the streams before it set is %r" % (j, carried, last))
            return res
        ids = [ln.partition(":")[2] for ln in streams[j][0] if ln.partition(":")[0] == "id" and "\x00" not in ln]
        if ids:
            v = ids[-1]
            last = v[1:] if v.startswith(" ") else v
    if got != want:
        k = next((i for i in range(min(len(got), len(want))) if got[i] != want[i]), min(len(got), len(want)))
        res.violate("sse-events", "across %d stream(s) of one subscription, event #%d: client yielded %r, the streams dispatch %r (%d vs %d events)" % (
            nstreams, k, got[k] if k < len(got) else None, want[k] if k < len(want) else None, len(got), len(want)))
    res.nontrivial = len(want) >= 2
    return res


def run_case(tape, tier):
    res = Result()
    if tape.flag("client_level", 1, 12):
        return client_case(tape, tier, res)
    maxev = 6 if tier == "quick" else 10
    lines, stream, terms = gen_stream(tape, maxev)
    chunked = tape.flag("chunked", 1, 2)
    head = b"HTTP/1.1 200 OK\r\nContent-Type: text/event-stream\r\nCache-Control: no-cache\r\n"
    if chunked:
        head += b"Transfer-Encoding: chunked\r\n\r\n"
        body = bytearray()
        pos = 0
        sizes = []
        while pos < len(stream):
            n = 1 + tape.draw("chunk_len", min(24, len(stream) - pos))
            # bias chunk boundaries to fall between CR and LF
            body += ("%x\r\n" % n).encode() + stream[pos:pos + n] + b"\r\n"
            sizes.append(n)
            pos += n
        body += b"0\r\n\r\n"
    else:
        head += b"\r\n"
        body = stream
        sizes = None
    data = head + bytes(body)
    off = len(head)
    pts = []
    if not chunked:
        for i in range(len(stream)):
            if stream[i:i + 1] == b"\r":
                pts.append(off + i + 1)
    else:
        pts = httpgen.interesting_points(data)
    cuts = httpgen.partition(tape, data, pts)
    # ---- run hio
    buf = bytearray()
    p = hclienting.Respondent(msg=buf, method="GET")
    bounds = [0] + cuts + [len(data)]
    err = None
    # history: the same Respondent (as the http Client re-uses it) already handled a response on this connection: an
    # ordinary one with a body, or an earlier event stream that ended; then reinit() as Client.transmit does
    prior = tape.pick("prior_response", ["none", "none", "ordinary", "sse"])
    prior_events, prior_id, prior_retry = [], None, None
    try:
        if prior == "ordinary":
            buf.extend(b"HTTP/1.1 200 OK\r\nContent-Type: text/plain\r\nContent-Length: 11\r\n\r\nhello world")
        elif prior == "sse":
            lines0, stream0, _t0 = gen_stream(tape, 3)
            buf.extend(b"HTTP/1.1 200 OK\r\nContent-Type: text/event-stream\r\nTransfer-Encoding: chunked\r\n\r\n" +
                       ("%x\r\n" % len(stream0)).encode() + stream0 + b"\r\n0\r\n\r\n")
            prior_events, prior_id, prior_retry = sse.dispatch(lines0)
            if not any(x.split(":")[0] == "id" for x in lines0):
                prior_id = None
        if prior != "none":
            for _ in range(4):
                if p.parser is not None:
                    p.parse()
            if p.parser is not None or buf:
                raise HarnessErrorLike("prior response not consumed")
            p.makeParser()
            p.reinit(method="GET")
            res.faults["respondent_reused_after_" + prior] += 1
    except HarnessErrorLike as ex:
        err = "prior: %s" % ex
    except Exception as ex:
        err = "prior response: %s: %s" % (type(ex).__name__, str(ex)[:100])
    try:
        if err is not None:
            raise _Skip()
        for i in range(len(bounds) - 1):
            buf.extend(data[bounds[i]:bounds[i + 1]])
            if p.parser is not None:
                p.parse()
        for _ in range(3):
            p.close()
            if p.parser is not None:
                p.parse()
    except _Skip:
        pass
    except Exception as ex:
        err = "%s: %s" % (type(ex).__name__, str(ex)[:100])
    got = [dict(id=e["id"] if e["id"] is not None else "", name=e["name"], data=e["data"]) for e in p.events]
    want, want_id, want_retry = sse.dispatch(lines)
    if prior == "sse":
        want = prior_events + want
        if not any(x.split(":")[0] == "id" for x in lines) and prior_id is not None:
            want_id = prior_id          # the client keeps tracking the last id it saw (it is what Last-Event-ID would carry)
        if want_retry is None:
            want_retry = prior_retry
    res.comparisons = len(want) + 2
    res.steps = len(cuts) + 1
    res.sim_time = float(len(cuts) + 1)
    res.scenario = lambda: dict(lines=lines, terminators=[t.decode().replace("\r", "CR").replace("\n", "LF") for t in terms],
                                chunk_sizes=sizes, cuts=cuts, stream=stream.decode("utf-8"))
    res.scen_digest = digest(dict(s=stream.decode("latin1"), c=cuts, k=sizes))
    res.event_digest = digest(dict(g=got, e=err, leid=p.leid, r=p.retry))
    if err:
        res.violate("sse-raised", "parsing the event stream raised %s" % err)
    elif got != want:
        k = next((i for i in range(min(len(got), len(want))) if got[i] != want[i]), min(len(got), len(want)))
        res.violate("sse-events", "event #%d: client yielded %r, stream dispatches %r (%d vs %d events; cuts %s; chunk sizes %s)" % (
            k, got[k] if k < len(got) else None, want[k] if k < len(want) else None, len(got), len(want), cuts[:10], sizes and sizes[:8]))
    else:
        leid = p.leid if p.leid is not None else ""
        if leid != want_id:
            res.violate("sse-last-event-id", "client last event id %r, stream's is %r" % (p.leid, want_id))
        exp_retry = want_retry if want_retry is not None else hclienting.Respondent.Retry
        if p.retry != exp_retry:
            res.violate("sse-retry", "client retry %r, stream says %r" % (p.retry, exp_retry))
    # probes
    tset = set(terms)
    if tset == {b"\r"}:
        res.probes["cr_only_terminators"] += 1
    between = [c for c in cuts if data[c - 1:c + 1] == b"\r\n" and c > off]
    after_cr = [c for c in cuts if c > off and data[c - 1:c] == b"\r" and data[c:c + 1] != b"\n"]
    res.faults["short_read"] += len(cuts)
    res.faults["short_read_between_cr_and_lf"] += len(between)
    res.faults["short_read_right_after_cr"] += len(after_cr)
    if between:
        res.probes["cut_between_cr_and_lf"] += 1
    if after_cr:
        res.probes["cut_right_after_cr"] += 1
    if chunked:
        res.probes["chunked_delivery"] += 1
    if any("\n" in e["data"] for e in want):
        res.probes["multi_line_data"] += 1
    if any(l.startswith(":") for l in lines):
        res.probes["comment_lines"] += 1
    if _dataless_block(lines):
        res.probes["block_without_data"] += 1
    ids = [e["id"] for e in want]
    if len(ids) >= 2 and len(lines) >= 2 and ids[-1] != "" and not lines[-2].startswith("id") and any(l.startswith("id") for l in lines):
        res.probes["id_persists_across_events"] += 1
    if want_retry is not None:
        res.probes["retry_set"] += 1
    res.nontrivial = len(want) >= 2 and len(tset) >= 2 and bool(between or after_cr)
    return res
