"""
C21  Memo transmission loses no gram under transport backpressure.
"""
import errno
from .. import gram as gr
from ..core import Result, digest
from hio.core.udp import peermemoing
from hio.core.uxd import peermemoing as uxdmemoing
from .. import store
from hio.core.memo import memoing

PID = "C21"
ENGINE = "gram"
LEVEL = "fault_enumeration"
RULE = ("Each case queues 1-5 memos to 1-2 destinations on a real sender (UDP PeerMemoer or unix-domain PeerMemoer on the fake datagram kernel, or a bare Memoer "
        "subclass whose send() is the transport), small gram sizes so that memos split into several grams. Every transport send is "
        "decided by the tape: accept all, accept a prefix of k bytes, accept nothing (returns 0), EAGAIN / ENOBUFS (would block), or "
        "an unreachable-destination errno (ECONNREFUSED, ECONNRESET, ENETRESET, ENETUNREACH, EHOSTUNREACH, ENETDOWN, EHOSTDOWN, "
        "ETIMEDOUT; for the unix-domain peer ECONNREFUSED, ENOENT, and ENOMEM as a further would-block). The sender is serviced (serviceAllTx / serviceTxGramsOnce, seeded mix) while faults are on (in a quarter of the cases the transport is closed and reopened once in between), then with faults off "
        "for a bounded number of rounds through one entry point per case (serviceAllTx, serviceTxGramsOnce or serviceTxGrams). Oracle: the gram "
        "queue after serviceTxMemos is the queued memos' grams, memo by memo in queue order; evaluated on the kernel's own log of accepted bytes: every accepted chunk is the next "
        "unsent bytes of the gram at the head of the queue for its destination; grams complete in queue order; a gram is abandoned "
        "only in a call that reported an unreachable errno; after the drain every queued gram was sent in full or abandoned that way; "
        "service never raises. Non-trivial: >= 1 would-block on a gram of which nothing had been sent yet, >= 1 partial accept, and "
        ">= 3 grams queued. Distinct: digest of grams + per-call decisions.")
COMPONENTS = dict(real=["hio.core.memo.memoing.Memoer tx services (_serviceOnceTxGrams, serviceTxGrams...)", "hio.core.udp.udping.Peer.send", "hio.core.udp.peermemoing.PeerMemoer", "hio.core.uxd.uxding.Peer.send", "hio.core.uxd.peermemoing.PeerMemoer", "hio.base.filing.Filer (socket directory in /dev/shm scratch)"],
                  stub=["datagram kernel sendto (FakeDgram)"])
ASSUMPTIONS = ["partial acceptance of a datagram is generated because the statement quantifies over it (UDP itself is all-or-nothing)"]
PROBES = ["would_block_on_fresh_gram", "remainder_left_when_queue_empty", "unreachable_drop", "partial_accept", "two_destinations", "bare_memoer", "uxd_peer", "reopen_with_remainder_pending"]
BOUNDS = dict(quick=dict(memos=5, send_calls=400), thorough=dict(memos=8, send_calls=800))
TIERS = dict(quick=dict(cases=50000, wall=60.0), thorough=dict(cases=2500000, wall=420.0))
SIM_TIME_UNIT = "send calls"


def run_case(tape, tier):
    res = Result()
    bare = tape.flag("bare", 1, 3)
    uxd = (not bare) and tape.flag("uxd", 1, 3)     # unix-domain datagram PeerMemoer instead of the UDP one
    unreachable = gr.UNREACHABLE_UXD if uxd else gr.UNREACHABLE
    would_block = gr.WOULD_BLOCK_UXD if uxd else gr.WOULD_BLOCK
    ndst = 1 + tape.draw("ndst", 2)
    nmemo = 1 + tape.draw("nmemos", 5 if tier == "quick" else 8)
    rates = dict(partial=tape.pick("r_partial", [0, 2, 6]), zero=tape.pick("r_zero", [0, 2, 6]), block=tape.pick("r_block", [0, 2, 6]),
                 unreach=tape.pick("r_unreach", [0, 0, 1, 3]))
    net = gr.DgramNet(tape, res)
    calls = []          # per send call: (dst, offered bytes, outcome, accepted)
    faults_on = [True]

    def policy(sock, data, dst):
        n = len(data)
        if faults_on[0]:
            if rates["unreach"] and tape.flag("unreach", rates["unreach"], 16):
                code = unreachable[tape.draw("unreach_errno", len(unreachable))]
                calls.append((gr.key(dst), data, "unreachable", 0))
                res.faults["errno_" + errno.errorcode[code]] += 1
                raise OSError(code, "unreachable")
            if rates["block"] and tape.flag("block", rates["block"], 16):
                code = would_block[tape.draw("block_errno", len(would_block))]
                calls.append((gr.key(dst), data, "block", 0))
                res.faults["would_block_" + errno.errorcode[code]] += 1
                raise OSError(code, "would block")
            if rates["zero"] and tape.flag("zero", rates["zero"], 16):
                calls.append((gr.key(dst), data, "zero", 0))
                res.faults["accept_zero"] += 1
                return 0
            if rates["partial"] and n > 1 and tape.flag("partial", rates["partial"], 16):
                k = 1 + tape.draw("partial_k", n - 1)
                calls.append((gr.key(dst), data, "partial", k))
                res.faults["accept_partial"] += 1
                return k
        calls.append((gr.key(dst), data, "all", n))
        return n
    net.send_policy = policy
    raised = []
    with gr.installed(net, uuid_seed=tape.draw("uuid_seed", 1 << 16)):
        code = tape.pick("code", ["bAAA", "bAAE"])
        curt = tape.flag("curt", 1, 3)
        bz, nz, mz, vz, az = memoing.Memoer.Sizes[code]
        oz = bz + nz + mz + vz + az
        if curt:
            oz = 3 * oz // 4
        size = oz + tape.pick("size_extra", [4, 10, 30])
        if curt:   # stay clear of recorded finding F34 (binary headers + gram size below the base64 non-zeroth overhead)
            size = max(size, sum(memoing.Memoer.Sizes[memoing.Memoer.Pairs[code]]) + 2)
        dsts = ["/sim/uxd/rx%d.uxd" % i for i in range(ndst)] if uxd else [("127.0.0.1", 55101 + i) for i in range(ndst)]
        scratch = None
        if bare:
            class BareTx(memoing.Memoer):
                def send(s, gram, dst, *, echoic=False):
                    # the transport of a bare Memoer: same per-call decisions, errno and would-block handling as a peer's
                    try:
                        return policy(None, bytes(gram), dst)
                    except OSError as ex:
                        if ex.args[0] in (errno.EAGAIN, errno.ENOBUFS):
                            return 0
                        raise
            tx = BareTx(name="tx", code=code, curt=curt, size=size)
            tx.reopen()
        elif uxd:
            scratch = store.scratch()
            tx = uxdmemoing.PeerMemoer(name="tx", temp=False, headDirPath=scratch, code=code, curt=curt, size=size)
            assert tx.reopen()
        else:
            tx = peermemoing.PeerMemoer(name="tx", ha=("127.0.0.1", 55100), code=code, curt=curt, size=size)
            assert tx.reopen()
        memos = []
        for i in range(nmemo):
            n = 1 + tape.draw("memo_len", 60)
            text = "".join("abcdefghijklmnopqrstuvwxyz"[(i * 5 + j) % 26] for j in range(n))
            dst = dsts[tape.draw("dst", ndst)]
            memos.append((text, dst))
        # queue in 1-2 batches so that new grams arrive while a remainder may be pending
        split = tape.draw("batch_split", nmemo + 1)
        raw_gram = tape.pick("raw_gram_extra", [0, 0, 0, 1, 17, 120]) if size + 121 <= 1240 else 0
        expected = []     # grams in queue order: (dst, bytes)

        rended = []       # (memo text, [grams]) in the order rend() was called
        orig_rend = tx.rend

        def rend(memo, *pa, **kwa):
            grams = orig_rend(memo, *pa, **kwa)
            rended.append((memo, [bytes(g) for g in grams]))
            return grams
        tx.rend = rend
        order_problem = []

        def queue(batch):
            for text, dst in batch:
                tx.memoit(text, dst)
            before = len(tx.txgs)
            r0 = len(rended)
            tx.serviceTxMemos()
            got = [(gr.key(d), bytes(g)) for g, d in list(tx.txgs)[before:]]
            # memos become grams in the order they were queued, each memo's grams in gram order
            want = []
            for (text, dst), (rtext, grams) in zip(batch, rended[r0:]):
                if rtext != text and not order_problem:
                    order_problem.append("memos were turned into grams out of queue order: %r before %r" % (rtext[:12], text[:12]))
                want += [(gr.key(dst), g) for g in grams]
            if len(rended) - r0 != len(batch) and not order_problem:
                order_problem.append("%d memos queued, %d turned into grams" % (len(batch), len(rended) - r0))
            if got != want and not order_problem:
                order_problem.append("the gram queue after serviceTxMemos is not the queued memos' grams in order (%d grams, expected %d)" % (
                    len(got), len(want)))
            expected.extend(got)
            if raw_gram and batch:
                # a gram the application made itself, queued as it is: longer than the size memos are cut to (which is no
                # limit for raw grams), well below the transport's limit
                d0 = batch[0][1]
                raw = bytes((7 * j + 3) & 0xff for j in range(size + 1 + raw_gram))
                tx.gramit(raw, d0)
                expected.append((gr.key(d0), raw))
                res.faults["raw_gram_longer_than_memo_gram_size"] += 1

        def service():
            mode = tape.draw("svc_mode", 3)
            try:
                if mode == 0:
                    tx.serviceAllTx()
                elif mode == 1:
                    tx.serviceTxGramsOnce()
                else:
                    tx.serviceTxGrams()
            except Exception as ex:
                raised.append((type(ex).__name__, str(ex)[:120]))
                return False
            return True

        try:
            queue(memos[:split])
        except Exception as ex:
            raised.append((type(ex).__name__, str(ex)[:120]))
        rounds = 4 + tape.draw("fault_rounds", 30)
        reopen_at = tape.draw("reopen_at", rounds) if tape.flag("reopen_mid_transmission", 1, 4) else None
        for r in range(rounds):
            if raised:
                break
            if r == reopen_at:
                # the transport is closed and reopened between two service calls, possibly with a partly sent gram pending:
                # queued grams and the remainder are the sender's state, not the socket's, and must survive
                try:
                    tx.close()
                    tx.reopen()
                except Exception as ex:
                    raised.append((type(ex).__name__, str(ex)[:120]))
                    break
                res.faults["transport_reopened_mid_transmission"] += 1
                if tx.txbs[1] is not None:
                    res.probes["reopen_with_remainder_pending"] += 1
            if r == rounds // 2 and split < nmemo:
                queue(memos[split:])
                split = nmemo
            if not service():
                break
            res.steps += 1
        if not raised and split < nmemo:
            queue(memos[split:])
        faults_on[0] = False
        # drain with faults off through one entry point per case: the greedy ones and the one-gram-per-call one must each
        # get everything out within the bound
        drain_mode = tape.draw("drain_mode", 3)
        for r in range(60 + 4 * len(expected)):
            if raised:
                break
            try:
                if drain_mode == 0:
                    tx.serviceAllTx()
                elif drain_mode == 1:
                    tx.serviceTxGramsOnce()
                else:
                    tx.serviceTxGrams()
            except Exception as ex:
                raised.append((type(ex).__name__, str(ex)[:120]))
            res.steps += 1
        pending = (len(tx.txgs), len(tx.txbs[0]) if tx.txbs[1] is not None else 0)
        tx.close()
        if scratch:
            store.cleanup(scratch)
    # ---- oracle: replay the call log against the queue
    res.comparisons = len(calls)
    res.sim_time = float(len(calls))
    fresh_block = False
    problem = None
    if order_problem and not raised:
        problem = ("tx-memo-order", order_problem[0])
    elif raised:
        problem = ("tx-service-raised", "servicing the transmit side raised %s: %s" % raised[0])
    else:
        gi = 0          # index of gram being sent
        off = 0         # bytes of it accepted so far
        for ci, (dst, data, outcome, acc) in enumerate(calls):
            if gi >= len(expected):
                problem = ("tx-extra-send", "send call #%d offers %d bytes to %s although every queued gram was already sent" % (ci, len(data), dst))
                break
            edst, egram = expected[gi]
            want = egram[off:]
            if dst != edst or data != want:
                # did it skip / lose / duplicate?
                where = "gram %d (%d/%d bytes sent)" % (gi, off, len(egram))
                later = [j for j in range(gi + 1, len(expected)) if expected[j][1] == data and expected[j][0] == dst]
                if later:
                    problem = ("tx-gram-lost", "send call #%d starts gram %d for %s while %s was not finished and no unreachable error was reported: "
                               "the unfinished gram is lost" % (ci, later[0], dst, where))
                else:
                    problem = ("tx-wrong-bytes", "send call #%d offers %d bytes to %s that are not the unsent rest of %s" % (ci, len(data), dst, where))
                break
            if outcome in ("block", "zero") and off == 0:
                fresh_block = True
            if outcome == "unreachable":
                gi += 1
                off = 0
                res.probes["unreachable_drop"] += 1
                continue
            off += acc
            if off >= len(egram):
                gi += 1
                off = 0
        if problem is None and gi < len(expected):
            problem = ("tx-gram-not-sent", "after the drain gram %d of %d (%d of %d bytes accepted) was never completed; sender has %d grams queued and "
                       "%d bytes pending" % (gi, len(expected), off, len(expected[gi][1]), pending[0], pending[1]))
    if problem:
        res.violate(problem[0], problem[1])
    if fresh_block:
        res.probes["would_block_on_fresh_gram"] += 1
    if res.faults.get("accept_partial"):
        res.probes["partial_accept"] += 1
    if ndst > 1:
        res.probes["two_destinations"] += 1
    if bare:
        res.probes["bare_memoer"] += 1
    if uxd:
        res.probes["uxd_peer"] += 1
    # remainder pending while the queue is empty: last gram partially accepted
    if calls and expected:
        last_start = None
        for ci, (dst, data, outcome, acc) in enumerate(calls):
            if data == expected[-1][1] and outcome in ("partial", "zero", "block"):
                last_start = ci
        if last_start is not None:
            res.probes["remainder_left_when_queue_empty"] += 1
    res.faultfree = sum(res.faults.values()) == 0
    res.nontrivial = fresh_block and bool(res.faults.get("accept_partial")) and len(expected) >= 3
    res.scenario = lambda: dict(bare=bare, uxd=uxd, code=code, curt=curt, size=size, rates=rates, grams=[(str(d), len(g)) for d, g in expected],
                                calls=[(str(d), len(data), o, a) for d, data, o, a in calls][:120], raised=raised)
    res.scen_digest = digest(dict(g=[(d, g.decode("latin1")) for d, g in expected], c=[(d, len(data), o, a) for d, data, o, a in calls]))
    res.event_digest = res.scen_digest
    return res
