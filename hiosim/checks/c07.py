"""
C07  Real-time pacing never runs early and does not drift.
"""
from .. import sched
from ..core import Result, digest, HarnessError
from hio.base import doing

PID = "C07"
ENGINE = "clock"
LEVEL = "fault_enumeration"
RULE = ("Each case runs a real Doist(real=True).do() on a simulated wall clock (SimClock at doing.time / timing.time: true "
        "elapsed time plus a wall offset). Drawn: tock at construction from {1/4, 0.1, 1, 1/32}; optionally doist.tock = x "
        "before do(); true time passing and a backward wall step between construction and do(); 3-12 cycles with per-cycle "
        "recur durations (0 .. 3.2 tocks), backward steps in the middle of a recur, per-sleep overshoot, backward steps "
        "and stalls (wall advances slower than true time) during sleeps. Forward jumps are never generated. Oracle on true "
        "time: start_k >= start_0 + k*tock - eps for the tock the scheduler has when do() is called (never early), and "
        "start_{k+1} <= max(end_k, start_0 + (k+1)*tock) + overshoot_k + J + eps where J is the total backward "
        "movement of the wall clock so far (lossless: lateness is never carried forward). Non-trivial: >= 1 late cycle "
        "(recur longer than tock) followed by >= 2 more cycles, or >= 1 backward step/stall, and >= 4 cycles. "
        "Distinct: digest of the drawn clock script.")
COMPONENTS = dict(real=["hio.base.doing.Doist.do (real branch)", "hio.help.timing.MonoTimer/Timer"],
                  stub=["wall clock and sleep (SimClock)"])
ASSUMPTIONS = ["forward wall-clock jumps are excluded by the statement", "the doer's own work is the only thing that consumes time inside a cycle",
               "the simulated wall clock reads about 1e3 s, where doubles are spaced 1e-13 apart, far below the oracle's tolerance (1e-9 per cycle); at "
               "epoch magnitude (1.7e9 s, spacing 2.4e-7) the period MonoTimer re-derives from stop - start at every restart is quantised to that "
               "spacing and cycles may start up to one spacing per cycle early (DESIGN 6.4): float resolution of the clock, not checked"]
PROBES = ["late_cycle", "catch_up_after_late_cycle", "backward_step_before_run", "backward_step_in_recur", "backward_step_in_sleep",
          "stall_in_sleep", "sleep_overshoot", "tock_changed_before_run"]
BOUNDS = dict(quick=dict(cycles=12), thorough=dict(cycles=40))
TIERS = dict(quick=dict(cases=100000, wall=60.0), thorough=dict(cases=4000000, wall=420.0))
SIM_TIME_UNIT = "simulated true seconds"


class _Stuck(BaseException):
    pass


def run_case(tape, tier):
    res = Result()
    tock_c = tape.pick("tock_c", [0.25, 0.1, 1.0, 0.03125, 1.0 / 3.0, 1.0 / 128.0])
    change = tape.flag("change_tock", 1, 4)
    tock_run = tape.pick("tock_run", [1.0, 0.5, 0.05, 0.25, 2.0, 2.0 / 3.0, 3.0 / 256.0]) if change else tock_c
    if change and tock_run == tock_c:
        change = False
    gap = tape.pick("gap", [0.0, 0.3, 5.0])
    j0 = tape.pick("j0", [0.0, 0.0, 0.0, 0.5, 10.0, 1000.0])
    maxc = 12 if tier == "quick" else 40
    n = 3 + tape.draw("ncycles", maxc - 2)
    T = tock_run
    cyc = []
    for k in range(n):
        r = tape.pick("recur_dur", [0.0, 0.0, 0.0, 0.3 * T, 1.5 * T, 3.2 * T, 0.999 * T])
        jr = tape.pick("j_recur", [0.0] * 7 + [0.4 * T, 7.0])
        cyc.append(dict(r=r, jr=jr))
    nsl = 3 * n + 4
    sleeps = []
    for k in range(nsl):
        sleeps.append(dict(over=tape.pick("overshoot", [0.0, 0.0, 0.0, 1e-4, 0.5 * T]),
                           js=tape.pick("j_sleep", [0.0] * 9 + [0.3 * T, 2.5 * T, 100.0]),
                           stall=tape.pick("stall", [1.0] * 9 + [0.5, 0.0])))
    # backward steps that land exactly at a wall-clock read (between the read that ended a wait and the restart of the
    # timer, inside start(), ...): read index -> step
    read_steps = {}
    for _ in range(tape.draw("n_read_steps", 3)):
        read_steps[tape.draw("read_ix", 8 * n + 8)] = tape.pick("j_read", [0.3 * T, 2.5 * T, 10.0])
    real_late = tape.flag("real_set_after_construction", 1, 4)
    # history: the same Doist already paced a short real-time run to completion and sat idle since (the gap and the backward
    # step before the run then fall between the two runs)
    earlier = 2 + tape.draw("earlier_cycles", 3) if tape.flag("earlier_run", 1, 4) else 0
    script = dict(earlier_run=earlier, real_late=real_late, tock_c=tock_c, tock_run=tock_run if change else None, gap=gap, j0=j0, cycles=cyc, sleeps=sleeps,
                  read_steps=sorted(read_steps.items()))

    clock = sched.SimClock()
    J = [0.0]           # total backward movement of the wall clock
    starts, ends, Jat = [], [], []
    over_by_cycle = {}
    cur = [0]

    prior = [False]

    def on_sleep(c, d, i):
        # a real sleep never returns in less than some quantum; without it a remaining time below
        # the float resolution of the clock would never elapse
        quantum = max(0.0, 1e-7 - max(0.0, d))
        if prior[0]:
            if i > 5000:
                raise _Stuck()
            return quantum
        over_by_cycle[cur[0]] = quantum   # only the last sleep of a wait can overshoot the deadline
        if i >= len(sleeps):
            if i > 5000:
                raise _Stuck()
            return quantum
        s = sleeps[i]
        extra = s["over"] + quantum
        if s["over"]:
            res.faults["sleep_overshoot"] += 1
            over_by_cycle[cur[0]] = quantum + s["over"]
        adv = max(0.0, d) + extra
        if s["stall"] < 1.0 and adv > 0:
            lost = adv * (1.0 - s["stall"])
            c.offset -= lost
            J[0] += lost
            res.faults["stall_in_sleep"] += 1
        if s["js"]:
            c.offset -= s["js"]
            J[0] += s["js"]
            res.faults["backward_step_in_sleep"] += 1
        return extra
    clock.on_sleep = on_sleep
    armed = [False]

    def on_time(c):
        if armed[0] and c.reads in read_steps:
            j = read_steps.pop(c.reads)
            c.offset -= j
            J[0] += j
            res.faults["backward_step_at_clock_read"] += 1
    clock.on_time = on_time

    class Pacer(doing.Doer):
        def recur(s, tyme):
            k = len(starts)
            cur[0] = k
            starts.append(clock.true)
            Jat.append(J[0])
            c = cyc[k]
            if c["r"] > T:
                res.faults["late_cycle"] += 1
            if c["jr"]:
                clock.true += c["r"] / 2
                clock.offset -= c["jr"]
                J[0] += c["jr"]
                res.faults["backward_step_in_recur"] += 1
                clock.true += c["r"] / 2
            else:
                clock.true += c["r"]
            ends.append(clock.true)
            return k + 1 >= n

    problem = None
    with sched.clock_installed(clock):
        try:
            if real_late:
                doist = doing.Doist(tock=tock_c, doers=[Pacer()])      # real-time mode switched on after construction
                doist.real = True
            else:
                doist = doing.Doist(tock=tock_c, real=True, doers=[Pacer()])
            if earlier:
                done_pre = [0]

                class Pre(doing.Doer):
                    def recur(s, tyme):
                        done_pre[0] += 1
                        return done_pre[0] >= earlier
                prior[0] = True
                doist.do(doers=[Pre()])
                prior[0] = False
                clock.sleeps = 0
                doist.doers = [Pacer()]
                res.faults["earlier_real_time_run_on_same_doist"] += 1
            clock.true += gap
            if j0:
                clock.offset -= j0
                res.faults["backward_step_before_run"] += 1
            if change:
                doist.tock = tock_run
                res.faults["tock_changed_before_run"] += 1
            j_before = J[0]
            t_do = clock.true
            armed[0] = True
            clock.reads = 0
            doist.do()
        except _Stuck:
            problem = ("pacing-wait-never-ends", "more than 5000 sleeps in a run of %d cycles: the wait for the next cycle does not end "
                       "(cycle %d, true time %.6f)" % (n, len(starts), clock.true))
        except Exception as ex:
            problem = ("pacing-raised", "the real-time run raised %s: %s" % (type(ex).__name__, str(ex)[:150]))
    res.scenario = lambda: dict(script=dict(script, sleeps=sleeps[:clock.sleeps]), starts=starts)
    res.scen_digest = digest(dict(script, sleeps=sleeps[:clock.sleeps]))
    res.event_digest = digest([repr(x) for x in starts + ends])
    if problem:
        res.violate(*problem)
        return res
    if len(starts) != n:
        res.violate("pacing-cycle-count", "ran %d cycles, expected %d" % (len(starts), n))
        return res
    s0 = starts[0]
    for k in range(n):
        eps = 1e-9 * (1 + k)
        res.comparisons += 2
        if starts[k] < s0 + k * T - eps:
            res.violate("pacing-early", "cycle %d started at true time %.9f, %.9f before its deadline start+%d*tock (tock at run "
                        "start %r, at construction %r, wall stepped back %.3f before the run)" % (
                            k, starts[k] - s0, (s0 + k * T) - starts[k], k, T, tock_c, j0))
            break
        if k + 1 < n:
            bound = max(ends[k], s0 + (k + 1) * T) + over_by_cycle.get(k, 0.0) + Jat[k + 1] + eps
            if starts[k + 1] > bound:
                res.violate("pacing-drift", "cycle %d started at true time %.9f, later than max(end of cycle %d = %.9f, "
                            "deadline %.9f) + overshoot %.4g + backward clock movement %.4g" % (
                                k + 1, starts[k + 1] - s0, k, ends[k] - s0, (k + 1) * T, over_by_cycle.get(k, 0.0), Jat[k + 1]))
                break
    late = [k for k in range(n) if cyc[k]["r"] > T]
    if late and late[0] + 2 < n:
        res.probes["catch_up_after_late_cycle"] += 1
    for name in ("late_cycle", "backward_step_before_run", "backward_step_in_recur", "backward_step_in_sleep", "stall_in_sleep",
                 "sleep_overshoot", "tock_changed_before_run"):
        if res.faults.get(name):
            res.probes[name] += 1
    res.faultfree = sum(res.faults.values()) == 0
    res.nontrivial = n >= 4 and ((late and late[0] + 2 < n) or J[0] > 0)
    res.sim_time = clock.true
    res.steps = clock.sleeps + n
    return res
