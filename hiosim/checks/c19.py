"""
C19  Client requests are sent one at a time and answered in FIFO order.
"""
from ..core import CaseTimeout as _CaseTimeout
import re, json, urllib.parse
from .. import netlab, rawpeer, tls as tlsmod
from ..core import Result, digest
from hio.core.http import clienting as hclienting

PID = "C19"
ENGINE = "http"
LEVEL = "exploration"
RULE = ("Each case queues 1-6 requests (GET/POST/PUT, bodies, each with a unique marker carried as an extra request key and in its "
        "path) on a real hio http Client and services it against scripted raw peers on the fake kernel (main host, a second host "
        "for cross-host redirects; plain, or TLS for the refusal case). Per request the peer script draws: immediate or delayed "
        "answer, response split into seeded fragments, Content-Length or chunked framing, 0-3 redirect hops (301/302/303/307; "
        "relative Location, absolute same host, absolute other host), a close-delimited answer for the last request, the peer "
        "closing the connection in the middle of the queue, a redirect that cannot be followed (no Location, invalid Location) or (TLS) "
        "a redirect from https to plain http on another port or on the https peer's own port, anywhere in the queue. Oracle: (one at a "
        "time) no request head reaches any peer while an earlier request's (or redirect hop's) response is still incomplete; "
        "(FIFO, exactly once) client.responses carry the markers of the queued requests in queue order without duplicates, and, "
        "for peers that do not close early, exactly one entry per request within the drain bound, each with the body the peer "
        "sent for it; redirect history (one entry per hop) is attached to the final entry and the intermediate 3xx never appear "
        "as separate entries; (refusal) after an https->http Location no connection reaches the http target and no request for the next hop is "
        "sent anywhere; a request whose redirect cannot be followed gets the 3xx itself as its one entry and the requests queued "
        "behind it are answered as usual. "
        "Payloads are given as body=, data= (JSON), fargs= (form) or not at all: each request on the wire and the request copy in its entry carry that request's own payload. Special peers include one that answers a drawn request completely with Connection: close and closes, against a client set up to reconnect (tymeout 0.5 or 1, advancing tyme): every request the peer answered completely has its entry, never a bogus one, one at a time as ever. "
        "Non-trivial: >= 3 requests queued and (>= 1 redirect hop or >= 1 delayed answer) with a response split over >= 2 reads. "
        "Distinct: digest of queue + peer script.")
COMPONENTS = dict(real=["hio.core.http.clienting.Client/Requester/Respondent", "hio.core.tcp.clienting.Client/ClientTls", "OpenSSL engine (TLS cases)"],
                  stub=["kernel sockets (FakeSocket)", "scripted raw peers"])
ASSUMPTIONS = ["liveness is demanded only when no peer closes the connection before the queue is done (hio documents no reconnect for queued requests)",
               "how an https->http refusal is signalled is not prescribed beyond the 3xx being that request's entry; nothing reaches the http target and no next-hop request is sent"]
PROBES = ["redirect_relative", "redirect_other_host", "redirect_multi_hop", "delayed_answer", "close_delimited_last", "peer_closes_mid_queue",
          "https_to_http_refused", "chunked_answer", "unfollowable_redirect_reported", "request_after_unfollowable_redirect"]
BOUNDS = dict(quick=dict(requests=6, hops=3), thorough=dict(requests=8, hops=3))
TIERS = dict(quick=dict(cases=30000, wall=60.0), thorough=dict(cases=1200000, wall=420.0))
SIM_TIME_UNIT = "net steps"

STUCK = ("noloc", "badloc", "downgrade-other", "downgrade-same")    # redirects that must not be followed


def stuck_at(r):
    """index of the hop of request r that cannot be followed, or None"""
    for j, h in enumerate(r["hops"]):
        if h["target"] in STUCK:
            return j
    return None


PORT_B = 56002
PORT_HTTP = 56003      # plain http target that must never be reached in the refusal case


def run_case(tape, tier):
    res = Result()
    tls = tape.flag("tls", 1, 5)
    nreq = 1 + tape.draw("nreq", 6 if tier == "quick" else 8)
    reqs = []
    for i in range(nreq):
        method = tape.pick("method", ["GET", "POST", "PUT", "GET", "POST", "PUT", "HEAD"])
        body = b"" if method in ("GET", "HEAD") else b"body-of-%d" % i
        # how the payload is given: as body=, as data= (sent as JSON), as fargs= (sent as a form) or not at all; what one
        # request was given must not show up in another
        how = "body" if method in ("GET", "HEAD") else tape.pick("payload_how", ["body", "body", "data", "fargs", "none"])
        early = False
        if method not in ("GET", "HEAD") and how == "body" and tape.flag("big_upload", 1, 5):
            # an upload several times the socket buffer: it goes out over many service passes; the peer answers it on sight
            body = bytes(97 + (j * 7 + i) % 26 for j in range(tape.pick("big_n", [3000, 5000, 9000])))
            early = tape.flag("answered_early", 2, 3)
        hops = []
        for h in range(tape.geometric("nhops", 3, 1, 4)):
            hops.append(dict(status=tape.pick("rstatus", [301, 302, 303, 307]),
                             target=tape.pick("rtarget", ["rel", "abs-same", "abs-other", "rel", "abs-same", "abs-other", "noloc", "badloc"] if not tls
                                              else ["rel", "abs-same", "rel", "abs-same", "noloc", "badloc"])))
            hops[-1]["query"] = tape.flag("loc_query", 1, 3)     # Location carries a query string
            if hops[-1]["target"] in STUCK:
                break      # a redirect that cannot be followed ends the chain: the 3xx itself is the answer
        if early:
            hops = []       # answered plainly
        spec = dict(i=i, method=method, body=body, how=how, early=early, hops=hops, delay=tape.pick("delay", [0, 0, 1, 3, 8]),
                    framing=tape.pick("framing", ["length", "length", "chunked"]), nfrag=1 + tape.draw("nfrag", 4))
        reqs.append(spec)
    special = tape.pick("special", ["none", "none", "close-delimited-last", "peer-closes-mid", "https-to-http", "close-then-reconnect"])
    if special == "https-to-http" and not tls:
        special = "none"
    if tls and special == "none" and tape.flag("force_refusal", 1, 2):
        special = "https-to-http"
    close_at = None
    if special == "peer-closes-mid" and nreq >= 2:
        close_at = tape.draw("close_at", nreq)
    refuse_at = tape.draw("refuse_at", nreq) if special == "https-to-http" else None
    # a client set up to reconnect on its own, and a peer that answers one request completely with `Connection: close` and
    # closes: the requests still queued go out over the next connection, one at a time and in order as ever
    rc_at = tape.draw("rc_at", nreq) if special == "close-then-reconnect" else None
    if special in ("close-then-reconnect", "peer-closes-mid", "close-delimited-last"):
        # (a peer that answers an upload on sight AND closes leaves the unsent tail of the upload in the client's buffer; a
        # reconnecting client sends it ahead of the next request on the new connection - DESIGN 6.4 - so the two are not combined)
        for r in reqs:
            r["early"] = False
    tyme = [0.0]
    if refuse_at is not None:
        # the refused hop: Location is plain http, on another port or on the very port the https peer listens on
        r = reqs[refuse_at]
        k = tape.draw("refuse_hop", len(r["hops"]) + 1)
        del r["hops"][k:]
        r["hops"] = [h for h in r["hops"] if h["target"] not in STUCK]
        r["hops"].append(dict(status=302, target=tape.pick("downgrade", ["downgrade-other", "downgrade-same"])))
    cfg = dict(tls=tls, special=special, close_at=close_at, refuse_at=refuse_at, rc_at=rc_at,
               requests=[dict(i=r["i"], method=r["method"], how=r["how"], early=r["early"], nbody=len(r["body"]), hops=r["hops"], delay=r["delay"], framing=r["framing"], nfrag=r["nfrag"]) for r in reqs])
    raised = []
    log = []          # ('req', mid, hop, peer) / ('done', mid, hop)
    inflight = {}     # (mid, hop) -> True while the response is not completely handed to the kernel
    where = {}        # (mid, hop) -> port of the peer that request arrived at

    bigcap = dict(capacity=1024) if any(len(r["body"]) > 1000 for r in reqs) else {}
    with netlab.Lab(tape, res, wirelog=False, tls=tls, **bigcap, rates=dict(short=tape.pick("r_short", [0, 4, 10]), partial=tape.pick("r_partial", [0, 4]))) as lab:
        net = lab.net
        # in a quarter of the cases the main peer only starts listening after a few service rounds: the first connection
        # attempts are refused while requests are already queued (and possibly already rendered into the connector's buffer)
        late_listen = 1 + tape.draw("late_listen_steps", 8) if tape.flag("late_listen", 1, 4) else 0
        srvA = None if late_listen else rawpeer.RawServer(net, lab.port, "peerA", tls=tls)
        srvB = rawpeer.RawServer(net, PORT_B, "peerB", tls=tls)
        srvH = rawpeer.RawServer(net, PORT_HTTP, "peerHTTP", tls=False)
        net.current_owner = "client0"
        kwa = dict(context=tlsmod.SimSSLContext(net, False), certedhost="localhost") if tls else {}
        if rc_at is not None:
            kwa.update(reconnectable=True, tymeout=tape.pick("retry_tymeout", [0.5, 1.0]))
        client = hclienting.Client(hostname="127.0.0.1", port=lab.port, scheme="https" if tls else "http", tymth=lambda: tyme[0], **kwa)
        client.reopen()
        net.current_owner = None
        for r in reqs:
            if r["how"] == "data":
                client.request(method=r["method"], path="/m%d" % r["i"], data=dict(req=r["i"], kind="json"), mid=r["i"])
            elif r["how"] == "fargs":
                client.request(method=r["method"], path="/m%d" % r["i"], fargs=dict(req=str(r["i"]), kind="form"), mid=r["i"])
            elif r["how"] == "none":
                client.request(method=r["method"], path="/m%d" % r["i"], mid=r["i"])
            else:
                client.request(method=r["method"], path="/m%d" % r["i"], body=r["body"], mid=r["i"])

        def payload_ok(rq, reqbody):
            """is reqbody what request rq was queued with (by meaning for JSON and forms, not by byte)"""
            try:
                if rq["how"] == "data":
                    return json.loads(reqbody.decode()) == dict(req=rq["i"], kind="json")
                if rq["how"] == "fargs":
                    return urllib.parse.parse_qs(reqbody.decode()) == dict(req=[str(rq["i"])], kind=["form"])
            except ValueError:
                return False
            return reqbody == (b"" if rq["how"] == "none" else rq["body"])
        violation = []

        def respond_bytes(r, hop, peer_port, wire_method="GET"):
            """response for request r at hop index `hop` (0 = original request)"""
            if wire_method == "HEAD" and hop >= len(r["hops"]):
                # the answer to a HEAD request: the head a GET would get (length of the body it does not send included), no body
                res.probes["head_request_answered"] += 1
                closing = rc_at == r["i"]
                return (b"HTTP/1.1 200 OK\r\n" + (b"Connection: close\r\n" if closing else b"") +
                        b"Content-Length: %d\r\n\r\n" % len(b"answer-for-%d" % r["i"])), closing
            if hop < len(r["hops"]):
                h = r["hops"][hop]
                path = "/m%d/h%d" % (r["i"], hop + 1)
                if h.get("query"):
                    path += "?hop=%d&x=ab" % (hop + 1)
                if h["target"] == "noloc":
                    return ("HTTP/1.1 %d Redirect\r\nContent-Length: 0\r\n\r\n" % h["status"]).encode(), False
                if h["target"] == "badloc":
                    loc = ["http://[::1" + path, "http://127.0.0.1:99999" + path][r["i"] % 2]
                elif h["target"] == "downgrade-other":
                    loc = "http://127.0.0.1:%d%s" % (PORT_HTTP, path)
                elif h["target"] == "downgrade-same":
                    loc = "http://127.0.0.1:%d%s" % (peer_port, path)
                elif h["target"] == "rel":
                    loc = path
                elif h["target"] == "abs-same":
                    loc = "%s://127.0.0.1:%d%s" % ("https" if tls else "http", peer_port, path)
                else:
                    other = PORT_B if peer_port != PORT_B else lab.port
                    loc = "http://127.0.0.1:%d%s" % (other, path)
                return ("HTTP/1.1 %d Redirect\r\nLocation: %s\r\nContent-Length: 0\r\n\r\n" % (h["status"], loc)).encode(), False
            body = b"answer-for-%d" % r["i"]
            last = r["i"] == nreq - 1
            if special == "close-delimited-last" and last:
                return b"HTTP/1.0 200 OK\r\nContent-Type: text/plain\r\n\r\n" + body, True
            if rc_at == r["i"]:
                res.faults["complete_response_then_close"] += 1
                return b"HTTP/1.1 200 OK\r\nConnection: close\r\nContent-Length: %d\r\n\r\n" % len(body) + body, True
            if r["framing"] == "chunked":
                half = len(body) // 2
                return (b"HTTP/1.1 200 OK\r\nTransfer-Encoding: chunked\r\n\r\n%x\r\n" % half + body[:half] + b"\r\n%x\r\n" % (len(body) - half) +
                        body[half:] + b"\r\n0\r\n\r\n"), False
            return b"HTTP/1.1 200 OK\r\nContent-Length: %d\r\n\r\n" % len(body) + body, False

        def behave(c):
            st = c["state"]
            port = c["server"].port
            # a complete request (head + declared body)?
            while True:
                m = re.search(rb"\r\n\r\n", c["rx"])
                if not m:
                    break
                head = bytes(c["rx"][:m.end()])
                ml = re.search(rb"content-length: *(\d+)", head, re.I)
                need = int(ml.group(1)) if ml else 0
                mp = re.match(rb"(\w+) /m(\d+)(?:/h(\d+))?(\?\S*)? HTTP", head)
                early_now = False
                if len(c["rx"]) < m.end() + need:
                    # an upload still on its way: some peers answer as soon as they have seen the head (and go on reading the
                    # body they were promised)
                    if (mp and int(mp.group(2)) < len(reqs) and reqs[int(mp.group(2))].get("early") and not mp.group(3) and
                            not st.get(("early", int(mp.group(2))))):
                        early_now = True
                        reqbody = None
                    else:
                        break
                else:
                    reqbody = bytes(c["rx"][m.end():m.end() + need])
                    del c["rx"][:m.end() + need]
                if not mp:
                    violation.append(("peer-got-garbage", "peer received an unparsable request head %r" % head[:60]))
                    continue
                mid = int(mp.group(2))
                hop = int(mp.group(3) or 0)
                if not early_now and hop == 0 and st.get(("early", mid)):
                    # the rest of an upload that was answered early has arrived: nothing more to answer
                    if mid < len(reqs) and not payload_ok(reqs[mid], reqbody):
                        violation.append(("wrong-request-on-wire", "request %d: the upload that was answered early arrived as %d bytes "
                                          "%r..., queued were %d bytes" % (mid, len(reqbody), reqbody[:30], len(reqs[mid]["body"]))))
                    res.probes["early_answered_upload_completed"] += 1
                    continue
                if early_now:
                    st[("early", mid)] = True
                    res.faults["upload_answered_before_it_was_complete"] += 1
                wire_method = mp.group(1).decode()
                wire_query = (mp.group(4) or b"").decode()
                if mid < len(reqs):
                    rq = reqs[mid]
                    if hop == 0 and (wire_method != rq["method"] or (reqbody is not None and not payload_ok(rq, reqbody))):
                        violation.append(("wrong-request-on-wire", "request %d was queued as %s with body %r but went out as %s with body %r" % (
                            mid, rq["method"], (rq["how"], rq["body"]), wire_method, reqbody)))
                    if 0 < hop <= len(rq["hops"]):
                        prev = rq["hops"][hop - 1]
                        wantq = ("?hop=%d&x=ab" % hop) if prev.get("query") else ""
                        if prev["target"] not in STUCK and wire_query != wantq:
                            violation.append(("redirect-wrong-target", "request %d hop %d: Location carried query %r, the request went out "
                                              "with %r" % (mid, hop, wantq, wire_query)))
                        prev_port = where.get((mid, hop - 1))
                        if prev_port is not None and prev["target"] in ("rel", "abs-same", "abs-other"):
                            want_port = prev_port if prev["target"] != "abs-other" else (PORT_B if prev_port != PORT_B else lab.port)
                            if port != want_port:
                                violation.append(("redirect-wrong-target", "request %d hop %d: Location (%s) pointed at port %d, the request "
                                                  "arrived at port %d" % (mid, hop, prev["target"], want_port, port)))
                    where[(mid, hop)] = port
                busy = [k for k, v in inflight.items() if v]
                log.append(("req", mid, hop, port))
                if busy:
                    violation.append(("not-one-at-a-time", "request %d (hop %d) reached a peer while the response to request %d (hop %d) "
                                      "was still incomplete" % (mid, hop, busy[0][0], busy[0][1])))
                r = reqs[mid]
                sa = stuck_at(r)
                if sa is not None and hop > sa:
                    violation.append(("unfollowable-redirect-followed", "request %d: hop %d (%s) cannot be followed (%s) but the client "
                                      "sent the request for hop %d to port %d" % (mid, sa, r["hops"][sa]["status"], r["hops"][sa]["target"], hop, port)))
                    hop = len(r["hops"])     # answer it plainly so that the run goes on
                data, close_after = respond_bytes(r, hop, port, wire_method)
                n = r["nfrag"]
                cuts = sorted(set(1 + tape.draw("rcut", max(1, len(data) - 1)) for _ in range(n - 1))) if len(data) > 1 else []
                b = [0] + cuts + [len(data)]
                st.setdefault("queue", []).append(dict(key=(mid, hop), wait=r["delay"] if hop == len(r["hops"]) else 0,
                                                        frags=[data[b[j]:b[j + 1]] for j in range(len(b) - 1)], close=close_after))
                inflight[(mid, hop)] = True
                if close_at == mid and hop == 0:
                    # the peer goes away instead of answering this request
                    st["queue"].pop()
                    inflight[(mid, hop)] = False
                    c["fin"] = True
                    res.faults["peer_closes_mid_queue"] += 1
                if early_now:
                    break      # the rest of the body is still to come
            q = st.get("queue")
            if q and not c["out"]:
                item = q[0]
                if item["wait"] > 0:
                    item["wait"] -= 1
                elif item["frags"]:
                    c["out"].extend(item["frags"].pop(0))
                if not item["frags"] and item["wait"] <= 0:
                    # complete once the kernel has taken the last fragment (checked next round when out is empty)
                    item["flushing"] = True
            if q and q[0].get("flushing") and not c["out"]:
                item = q.pop(0)
                inflight[item["key"]] = False
                log.append(("done",) + item["key"])
                if item["close"]:
                    c["fin"] = True

        snaps = []
        steps = 200 + 40 * nreq
        idle = 0
        for step in range(steps):
            res.steps += 1
            nev = len(net.events)
            if rc_at is not None:
                tyme[0] += 0.125
            net.current_owner = "client0"
            try:
                client.service()
            except _CaseTimeout:
                raise
            except BaseException as ex:
                raised.append((type(ex).__name__, str(ex)[:150]))
                net.current_owner = None
                break
            net.current_owner = None
            # snapshot entries the moment they appear (status, body, marker, redirect count)
            while len(snaps) < len(client.responses):
                e = client.responses[len(snaps)]
                snaps.append(dict(mid=e["request"].get("mid"), status=e["status"], body=bytes(e["body"]), errored=e["errored"],
                                  given=(e["request"].get("data"), e["request"].get("fargs")),
                                  redirects=[x["status"] for x in e.get("redirects", [])]))
            if srvA is None and step >= late_listen:
                srvA = rawpeer.RawServer(net, lab.port, "peerA", tls=tls)
                res.faults["connect_refused_before_peer_listens"] += 1
            for s in (x for x in (srvA, srvB, srvH) if x is not None):
                s.step(behave)
            net.step()
            if step > 80:
                net.faults_on = False
            if len(net.events) == nev and not any(inflight.values()):
                idle += 1
                if idle > 15:
                    break
            else:
                idle = 0
        # ---- oracles
        resp = snaps
        mids = [e["mid"] for e in resp]
        res.comparisons = len(resp) + 3
        early_close = close_at is not None
        if raised:
            res.violate("service-raised", "Client.service() raised %s: %s" % raised[0])
        elif violation:
            res.violate(violation[0][0], violation[0][1])
        else:
            want = list(range(nreq))
            if mids != want[:len(mids)]:
                res.violate("fifo-order", "client.responses carry markers %s, queue order is %s" % (mids, want))
            elif len(set(mids)) != len(mids):
                res.violate("fifo-duplicate", "duplicate entries %s" % mids)
            elif len(client.responses) != len(snaps):
                res.violate("fifo-duplicate", "entries disappeared from client.responses")
            elif rc_at is not None and [m for m in range(nreq) if m not in mids and
                                        ("done", m, stuck_at(reqs[m]) if stuck_at(reqs[m]) is not None else len(reqs[m]["hops"])) in log]:
                # (a request written to the connection the peer was closing is lost with it, as on any closing peer; what
                # is demanded is an entry for every request the peer answered completely)
                res.violate("fifo-missing", "the peer answered requests %s completely, client.responses has entries for %s only" % (
                    [m for m in range(nreq) if ("done", m, stuck_at(reqs[m]) if stuck_at(reqs[m]) is not None else len(reqs[m]["hops"])) in log], mids))
            elif not early_close and rc_at is None and len(mids) != nreq:
                res.violate("fifo-missing", "%d of %d requests got an entry in client.responses within the drain bound (markers %s, "
                            "waited=%s, requests left=%d)" % (len(mids), nreq, mids, client.waited, len(client.requests)))
            else:
                for e in resp:
                    mid = e["mid"]
                    r = reqs[mid]
                    if not r["hops"]:
                        # the originating request it carries: the payload arguments are this request's own
                        want = (dict(req=mid, kind="json") if r["how"] == "data" else None,
                                dict(req=str(mid), kind="form") if r["how"] == "fargs" else None)
                        res.comparisons += 1
                        if e["given"] != want:
                            res.violate("entry-carries-foreign-request", "entry for request %d (queued with %s) carries a request "
                                        "with data=%r fargs=%r" % (mid, r["how"], e["given"][0], e["given"][1]))
                            break
                    if close_at is not None and mid >= close_at:
                        continue
                    sa = stuck_at(r)
                    if sa is not None:
                        # the 3xx that cannot be followed is this request's one entry, with the hops before it as history
                        if e["status"] != r["hops"][sa]["status"] or len(e["redirects"]) != sa:
                            res.violate("fifo-wrong-response", "request %d: hop %d (%s, %s) cannot be followed; its entry has status %s and %d history "
                                        "entries (want status %s and %d)" % (mid, sa, r["hops"][sa]["status"], r["hops"][sa]["target"], e["status"],
                                                                             len(e["redirects"]), r["hops"][sa]["status"], sa))
                            break
                        res.probes["unfollowable_redirect_reported"] += 1
                        continue
                    if e["status"] != 200 or e["body"] != (b"answer-for-%d" % mid if r["method"] != "HEAD" else b""):
                        res.violate("fifo-wrong-response", "entry for request %d appeared with status %s body %r" % (mid, e["status"], e["body"][:40]))
                        break
                    if e["errored"]:
                        res.violate("fifo-wrong-response", "entry for request %d (well-formed 200 answer, body as sent) is flagged errored" % mid)
                        break
                    nh = len(e["redirects"])
                    if nh != len(r["hops"]):
                        res.violate("redirect-history", "request %d went through %d redirect hop(s) but its entry carries %d" % (mid, len(r["hops"]), nh))
                        break
                    if any(x not in (301, 302, 303, 307) for x in e["redirects"]):
                        res.violate("redirect-history", "redirect history of request %d holds a non-3xx entry" % mid)
                        break
            if special == "https-to-http":
                if srvH.accepted or any(c["rx"] for c in srvH.conns):
                    res.violate("https-downgrade", "after an https->http redirect a connection reached the plain http target")
                else:
                    res.probes["https_to_http_refused"] += 1
        events = list(net.events)
        sim_now = net.now
    # probes
    allhops = [h for r in reqs for h in r["hops"]]
    if any(h["target"] == "rel" for h in allhops):
        res.probes["redirect_relative"] += 1
    if any(h["target"] == "abs-other" for h in allhops):
        res.probes["redirect_other_host"] += 1
    if any(len(r["hops"]) >= 2 for r in reqs):
        res.probes["redirect_multi_hop"] += 1
    if any(r["delay"] for r in reqs):
        res.probes["delayed_answer"] += 1
    if special == "close-delimited-last":
        res.probes["close_delimited_last"] += 1
    if res.faults.get("peer_closes_mid_queue"):
        res.probes["peer_closes_mid_queue"] += 1
    if any(stuck_at(r) is not None for r in reqs[:-1]):
        res.probes["request_after_unfollowable_redirect"] += 1
    if any(r["framing"] == "chunked" for r in reqs):
        res.probes["chunked_answer"] += 1
    res.scenario = lambda: dict(config=cfg, raised=raised, peer_log=[list(x) for x in log][:60],
                                responses=[dict(mid=e["mid"], status=e["status"], redirects=len(e["redirects"]), errored=e["errored"]) for e in resp])
    res.scen_digest = digest(cfg)
    res.event_digest = digest([list(map(str, e)) for e in events if not tls or e[1] not in ("send", "recv")] + [raised, [list(x) for x in log]])
    res.sim_time = float(sim_now)
    res.nontrivial = nreq >= 3 and (bool(allhops) or any(r["delay"] for r in reqs)) and any(r["nfrag"] >= 2 for r in reqs)
    return res
