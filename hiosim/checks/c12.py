"""
C12  Idle HTTP connections time out after the configured tymeout.
"""
from ..core import CaseTimeout as _CaseTimeout
import errno
import ssl
from .. import netlab, net as netmod, tls as tlsmod
from ..core import Result, digest, HarnessError
from hio.base import doing
from hio.core.http import serving as hserving

PID = "C12"
ENGINE = "net"
LEVEL = "fault_enumeration"
RULE = ("Each case runs a real hio http Server (WSGI) or BareServer, plain or TLS, as a doer under a real Doist in virtual time "
        "on the fake kernel; tymeout from {0.25, 1, 5}, tock from {1/32, 0.1, 0.25}. 1-3 scripted raw clients with seeded timing: "
        "connect and stay silent; trickle one header byte every d (d = 0.3, 0.6 or 0.9 tymeout) and fall silent at a drawn tyme; "
        "send bursts of several fragments per cycle then fall silent; a complete non-persistent request whose WSGI app never "
        "finishes; a non-persistent request for a 20-40 kB body over a 2 kB socket buffer read slowly, so that response bytes flow every "
        "cycle for 1.5-2.5 tymeouts; a persistent HTTP/1.1 exchange (exempt, observed only). Idleness is the only server-side reason to close. "
        "Oracle in Doist tyme, from the fake kernel's own record of when bytes moved on the server-side socket: (safety) when "
        "the server closes a connection, the last traffic before that cycle is at least tymeout old; (bounded liveness) a "
        "non-persistent connection idle since tyme t is closed by t + tymeout + 2 tocks; service never raises. "
        "In a fifth of the cases the server is wound to another clock (in step with the Doist at an offset of +64, +16 or -8) at a drawn cycle while it holds connections: every idle period starts afresh then. "
        "Non-trivial: >= 1 connection had >= 2 separate traffic events before falling idle and the run lasted beyond its idle "
        "deadline. Distinct: digest of config + client scripts.")
COMPONENTS = dict(real=["hio.core.http.serving.Server/BareServer/ServerDoer/Requestant/Responder", "hio.core.tcp.serving.Server/ServerTls/Remoter/RemoterTls (tymer, refresh)",
                        "hio.base.doing.Doist (virtual time)", "OpenSSL engine"],
                  stub=["kernel sockets (FakeSocket)", "raw scripted clients"])
ASSUMPTIONS = ["TLS clients complete the handshake before falling silent (connections stalled inside the handshake are outside the generated domain)",
               "traffic = bytes the server moved through the server-side socket plus client bytes that became readable on it, whether read yet or not (TLS: plaintext moved by the server-side TLS layer)"]
PROBES = ["silent_closed", "trickle_survived", "burst_then_idle", "app_never_finishes", "persistent_kept", "tls_case", "bare_server",
          "slow_download_completed"]
BOUNDS = dict(quick=dict(clients=3, cycles=450), thorough=dict(clients=3, cycles=450))
TIERS = dict(quick=dict(cases=20000, wall=60.0), thorough=dict(cases=700000, wall=420.0))

REQ10 = b"GET /idle HTTP/1.0\r\nHost: x\r\nAccept: */*\r\n\r\n"
REQ11 = b"GET /done HTTP/1.1\r\nHost: x\r\n\r\n"
BLOCK_TRICKLE = b"GET /slow HTTP/1.0\r\nHost: example.com\r\nX-Pad: " + b"p" * 4000
HEAD_TRICKLE = b"GET /slow HTTP/1.0\r\nHost: example.com\r\nUser-Agent: trickle-trickle-trickle-trickle-trickle-trickle\r\nX-A: 1\r\nX-B: 2\r\nX-C: 3\r\n"


BIG = [40000]     # body size of /big for the current case
REQBIG = b"GET /big HTTP/1.0\r\nHost: x\r\n\r\n"


def app(environ, start_response):
    if environ["PATH_INFO"] == "/big":
        start_response("200 OK", [("Content-Type", "application/octet-stream"), ("Content-Length", str(BIG[0]))])
        yield b"B" * BIG[0]
        return
    if environ["PATH_INFO"] == "/done":
        start_response("200 OK", [("Content-Type", "text/plain"), ("Content-Length", "2")])
        yield b"ok"
        return
    start_response("200 OK", [("Content-Type", "text/plain")])
    while True:
        yield b""


class RawClient:
    def __init__(self, lab, idx, tls, script, start):
        self.lab = lab
        self.idx = idx
        self.tls = tls
        self.script = list(script)    # [(tyme_due, bytes)]
        self.start = start
        self.sock = None
        self.ssl = None
        self.connected = False
        self.ready = False
        self.closed_seen = None
        self.rx = bytearray()
        self.pending = bytearray()
        self.sent_events = 0
        self.read_rate = None      # bytes read per step (None: everything there is)

    def step(self, tyme):
        net = self.lab.net
        if tyme < self.start or self.closed_seen is not None:
            return
        if self.sock is None:
            net.current_owner = "raw%d" % self.idx
            self.sock = netmod.FakeSocket(net)
            net.current_owner = None
        if not self.connected:
            r = self.sock.connect_ex(("127.0.0.1", self.lab.port))
            if r in (0, errno.EISCONN):
                self.connected = True
                if self.tls:
                    self.ssl = tlsmod.SimSSLContext(net, False).wrap_socket(self.sock, server_hostname="localhost")
            else:
                return
        io = self.ssl if self.tls else self.sock
        if self.tls and not self.ready:
            try:
                self.ssl.do_handshake()
                self.ready = True
            except (ssl.SSLWantReadError, ssl.SSLWantWriteError):
                return
            except OSError:
                self.closed_seen = tyme
                return
        else:
            self.ready = True
        # send what is due
        while self.script and self.script[0][0] <= tyme:
            _t, data = self.script.pop(0)
            self.pending.extend(data)
            self.sent_events += 1
        try:
            if self.pending:
                n = io.send(bytes(self.pending))
                del self.pending[:n]
        except (BlockingIOError, ssl.SSLWantReadError, ssl.SSLWantWriteError):
            pass
        except OSError:
            self.closed_seen = tyme
            return
        # drain (a slow reader takes read_rate bytes per step)
        try:
            while True:
                d = io.recv(4096 if self.read_rate is None else self.read_rate)
                if d and self.read_rate is not None:
                    self.rx.extend(d)
                    break
                if d == b"":
                    self.closed_seen = tyme
                    break
                self.rx.extend(d)
        except (BlockingIOError, ssl.SSLWantReadError, ssl.SSLWantWriteError):
            pass
        except OSError:
            self.closed_seen = tyme


def run_case(tape, tier):
    res = Result()
    tls = tape.flag("tls", 1, 3)
    bare = tape.flag("bare", 1, 4)
    tymeout = tape.pick("tymeout", [1.0, 0.25, 5.0])
    tock = tape.pick("tock", [0.25, 0.1, 0.03125])
    if tymeout == 5.0 and tock < 0.1:
        tock = 0.1
    ncl = 1 + tape.draw("nclients", 3)
    # receive buffer size of the server's connections: default, or so small that a trickling client's pieces are exactly one
    # (or two) buffers long and no read ever comes back short
    sbs = tape.pick("server_bs", [8096, 8096, 8096, 64]) if not tls else 8096
    kinds = ["silent", "trickle", "burst", "appnever", "persistent", "download"]
    if bare:
        kinds = ["silent", "trickle", "burst"]
    specs = []
    horizon = 0.0
    for i in range(ncl):
        kind = tape.pick("kind", kinds)
        start = tape.draw("start", 4) * tock
        script = []
        if kind == "trickle":
            d = tape.pick("trickle_d", [0.3, 0.6, 0.9]) * tymeout
            nb = 2 + tape.draw("trickle_n", 10)
            t = start + tock
            if sbs == 64:
                plen = 64 * tape.pick("trickle_piece_buffers", [1, 1, 2])
                for k in range(nb):
                    script.append((t, BLOCK_TRICKLE[k * plen:(k + 1) * plen]))
                    t += d
                res.faults["trickle_pieces_of_exactly_the_buffer_size"] += 1
            else:
                for k in range(nb):
                    script.append((t, HEAD_TRICKLE[k:k + 1]))
                    t += d
            last = script[-1][0]
        elif kind == "burst":
            nb = 2 + tape.draw("burst_n", 8)
            t = start + tock
            pos = 0
            for k in range(nb):
                n = 1 + tape.draw("burst_len", 4)
                script.append((t, HEAD_TRICKLE[pos:pos + n]))
                pos += n
                t += tape.pick("burst_gap", [0.0, 0.0, tock, 2 * tock])
            last = script[-1][0]
        elif kind == "appnever":
            script.append((start + tock, REQ10))
            last = start + tock
        elif kind == "persistent":
            script.append((start + tock, REQ11))
            last = start + tock
        elif kind == "download":
            # non-persistent request for a body much larger than the socket buffer, read slowly: the response
            # keeps flowing (a little every cycle) for longer than tymeout
            script.append((start + tock, REQBIG))
            ncyc = int(tape.pick("dl_dur", [1.5, 2.5]) * tymeout / tock)
            size = tape.pick("dl_size", [20000, 40000])
            rate = max(16, size // ncyc)
            if tls:
                # a whole TLS record (16 kB) has to pass in well under a tymeout, or no plaintext progress is visible at all
                rate = max(rate, int(17000 / (0.4 * tymeout / tock)) + 1)
                size = rate * ncyc
            spec_extra = dict(size=size, rate=rate)
            last = start + tock + (size / spec_extra["rate"] + 4) * tock
        else:
            last = start
        specs.append(dict(kind=kind, start=start, script=[(t, bytes(b).decode("latin1")) for t, b in script], last=last))
        if kind == "download":
            specs[-1].update(spec_extra)
        horizon = max(horizon, last)
    limit = horizon + tymeout * tape.pick("after", [1.6, 2.5, 0.8]) + 6 * tock
    if limit / tock > 440:
        limit = 440 * tock
    # the server is handed to another clock while it holds connections (the way a server object moves from one scheduler to
    # the next): the other clock runs in step with the first at a constant offset; every idle period starts afresh there
    rewind = None
    if tape.flag("rewind", 1, 5):
        rewind = dict(at=(2 + tape.draw("rewind_cycle", max(1, int(horizon / tock) + 4))) * tock,
                      delta=tape.pick("rewind_delta", [64.0, -8.0, 16.0]))
    cfg = dict(tls=tls, bare=bare, tymeout=tymeout, tock=tock, limit=limit, clients=specs, rewind=rewind, server_bs=sbs)
    raised = []
    downloads = [sp for sp in specs if sp["kind"] == "download"]
    if downloads:
        BIG[0] = downloads[0]["size"]
        for sp in downloads:
            sp["size"] = BIG[0]
    capacity = 2048 if downloads else 1 << 16
    with netlab.Lab(tape, res, tls=tls, capacity=capacity, rates=dict(short=tape.pick("r_short", [0, 4]), delay=0), wirelog=False) as lab:
        net = lab.net
        doist = doing.Doist(tock=tock, real=False, limit=limit)
        net.tymth = doist.tymen()
        net.current_owner = "server"
        kwa = {}
        if tls:
            kwa["context"] = tlsmod.SimSSLContext(net, True)
        if sbs != 8096:
            kwa["bs"] = sbs
        if bare:
            server = hserving.BareServer(port=lab.port, scheme="https" if tls else "http", timeout=tymeout, **kwa)
        else:
            server = hserving.Server(app=app, port=lab.port, scheme="https" if tls else "http", tymeout=tymeout, **kwa)
        net.current_owner = None
        clients = [RawClient(lab, i, tls, [(t, s.encode("latin1")) for t, s in sp["script"]], sp["start"]) for i, sp in enumerate(specs)]
        for c, sp in zip(clients, specs):
            if sp["kind"] == "download":
                c.read_rate = sp["rate"]

        rewound = {}     # sid of the server-side socket -> tyme (first clock) at which its idle period started afresh

        class Srv(doing.Doer):
            def enter(s, *, temp=None):
                net.current_owner = "server"
                server.servant.wind(s.tymth)
                ok = server.reopen()
                net.current_owner = None
                if not ok:
                    raise HarnessError("server did not open")

            def recur(s, tyme):
                net.current_owner = "server"
                if rewind is not None and not rewound and tyme >= rewind["at"] - 1e-9:
                    for ix in list(server.servant.ixes.values()):
                        raw = getattr(ix.cs, "sock", ix.cs)
                        if raw is not None:
                            rewound[raw.sid] = tyme
                    rewound[None] = tyme
                    server.servant.wind(lambda: doist.tyme + rewind["delta"])
                    res.faults["server_rewound_to_other_clock_with_%d_connections" % min(2, len(rewound) - 1)] += 1
                try:
                    server.service()
                except _CaseTimeout:
                    raise
                except BaseException as ex:
                    raised.append((tyme, type(ex).__name__, str(ex)[:150]))
                    raise
                finally:
                    net.current_owner = None
                return False

            def exit(s):
                net.current_owner = "server"
                try:
                    server.close()
                except Exception:
                    pass
                net.current_owner = None

        class Driver(doing.Doer):
            def recur(s, tyme):
                for c in clients:
                    c.step(tyme)
                net.step()
                res.steps += 1
                return False

        try:
            doist.do(doers=[Driver(tock=0.0), Srv(tock=0.0)])
        except HarnessError:
            raise
        except _CaseTimeout:
            raise
        except BaseException as ex:
            if not raised:
                raised.append((doist.tyme, type(ex).__name__, str(ex)[:150]))
        end_tyme = doist.tyme
        # ---- oracle
        eps = 1e-9
        if raised:
            res.violate("service-raised", "server.service() raised %s: %s at tyme %s (config %s)" % (
                raised[0][1], raised[0][2], raised[0][0], dict(tls=tls, bare=bare, tymeout=tymeout, tock=tock)))
        else:
            for i, c in enumerate(clients):
                sp = specs[i]
                if c.sock is None or c.sock.peer is None:
                    continue
                srv = c.sock.peer            # server-side socket of this connection
                # plain: traffic = bytes the server moved through the socket and bytes of the client that became readable on it
                # (whether or not the server has looked yet)
                tymes = sorted(srv.io_tymes + srv.arr_tymes)
                if tls:
                    # traffic as the server can see it: plaintext moved by the TLS layer (a record that is still trickling
                    # into the kernel has not been sent as far as SSL_write's caller can tell)
                    wrapped = [w for w in net.tls_sockets if w.sock is srv]
                    tymes = wrapped[0].io_tymes if wrapped else []
                if srv.sid in rewound:
                    tymes = sorted(list(tymes) + [rewound[srv.sid]])
                closed = srv.closed_tyme
                # closes that happened in the final exit of the run are not idle closes
                if closed is not None and closed >= end_tyme - eps:
                    closed = None
                res.comparisons += 1
                if sp["kind"] == "persistent":
                    if closed is None:
                        res.probes["persistent_kept"] += 1
                    continue
                # the server handed the whole response (head + declared body) to the kernel (TLS: to the TLS layer)
                if tls:
                    sent_plain = len(wrapped[0].plain_tx) if wrapped else 0
                else:
                    sent_plain = srv.out.total_accepted
                complete = sp["kind"] == "download" and sent_plain > sp["size"]
                if sp["kind"] == "download":
                    if complete:
                        res.probes["slow_download_completed"] += 1
                        if len(set(tymes)) >= 2 and tymes[-1] - tymes[0] > tymeout:
                            res.nontrivial = True
                        continue      # the close after a completed non-persistent response is not an idle close
                if closed is not None:
                    before = [t for t in tymes if t < closed - eps]
                    t_last = before[-1] if before else None
                    base = t_last if t_last is not None else None
                    if base is not None and closed - base < tymeout - eps:
                        res.probes["closed_while_traffic_recent"] += 1
                        res.violate("idle-close-too-early", "client %d (%s): server closed the connection at tyme %.5f but it had traffic "
                                    "at %.5f, only %.5f before (tymeout %s, tock %s, tls %s)" % (
                                        i, sp["kind"], closed, base, closed - base, tymeout, tock, tls))
                        continue
                # liveness: idle since t_idle -> closed by t_idle + tymeout + 2 tocks
                if not c.ready:
                    continue
                all_t = [t for t in tymes if closed is None or t < closed - eps]
                if c.script or c.pending:
                    continue     # client still had things to send when the run ended
                t_idle = all_t[-1] if all_t else None
                if t_idle is None:
                    # never any traffic: idle since the server accepted it; use the first tyme the server could know it
                    t_idle = max(sp["start"], 0.0) + 2 * tock
                deadline = t_idle + tymeout + 2 * tock
                if end_tyme > deadline + tock:
                    if closed is None or closed > deadline + eps:
                        res.violate("idle-not-closed", "client %d (%s): idle since tyme %.5f, tymeout %s, tock %s: should be closed by %.5f "
                                    "but %s (run ended at %.5f; %d traffic events; tls %s bare %s)" % (
                                        i, sp["kind"], t_idle, tymeout, tock, deadline,
                                        "was closed at %.5f" % closed if closed is not None else "never was", end_tyme, len(all_t), tls, bare))
                    else:
                        res.probes[dict(silent="silent_closed", trickle="trickle_survived", burst="burst_then_idle",
                                        appnever="app_never_finishes").get(sp["kind"], "x")] += 1
                        if len(set(all_t)) >= 2:
                            res.nontrivial = True
        events = list(net.events)
    if tls:
        res.probes["tls_case"] += 1
    if bare:
        res.probes["bare_server"] += 1
    res.scenario = lambda: dict(config=cfg, raised=raised)
    res.scen_digest = digest(cfg)
    res.event_digest = digest([list(map(str, e)) for e in events if not tls or e[1] not in ("send", "recv")] + [raised])
    res.sim_time = end_tyme
    return res
