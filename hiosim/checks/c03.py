"""
C03  Virtual-time scheduling follows the documented cycle model.
"""
from fractions import Fraction
from .. import sched
from ..core import Result, digest
from ..models import schedmodel

PID = "C03"
LEVEL = "exploration"
RULE = ("Each case draws a fault-free doer set (flat, or nested under tock-0 DoDoers; all six doer kinds; per-step "
        "yielded tocks from {0, None, T, 2T, T/2, 3T, T/3, 0.1, 1.5T+0.01}; scheduler tock from "
        "{1, 1/4, 1/32, 1/2, 0.1, 1/3}; start tyme from {0, 1.5, 8, 100.1}; completion points; optional limit) and runs it "
        "under the real Doist in virtual time. Oracle: tyme advances by exactly one tock per cycle, every recur is sent "
        "and observes the scheduler's tyme of that cycle, at most one recur per doer per cycle, and the per-doer sequence "
        "of (cycle, tyme) equals the reference model (evaluated in float and in exact rationals; a violation must match "
        "neither). Non-trivial: >= 2 leaf doers with different yielded tocks, >= 1 yielded tock not a multiple of the "
        "scheduler tock, >= 6 cycles. Distinct: digest of the program.")
COMPONENTS = dict(real=["hio.base.doing.Doist.do/enter/recur", "DoDoer", "Tymist.tick", "all doer kinds"],
                  stub=["nothing (virtual time only)"], model=["hiosim/models/schedmodel.py"])
ASSUMPTIONS = ["float model: tyme accumulates tock by tock, due tymes accumulate yielded tocks (as documented)",
               "nested programs: a tock-0 DoDoer is modelled as transparent (that is C04's claim)"]
PROBES = ["nested_program", "nondyadic_tock", "yield_smaller_than_tock", "yield_none", "float_and_rational_models_differ"]
BOUNDS = dict(quick=dict(nodes=8, depth=3, steps=7), thorough=dict(nodes=14, depth=4, steps=12))
TIERS = dict(quick=dict(cases=40000, wall=60.0), thorough=dict(cases=1200000, wall=420.0))


def feat_for(tier, nested=True):
    f = sched.default_feat()
    f["prior_run"] = True
    f["acts"] = dict(cont=10, ret=1, raise_=0, kbint=0, extend=0, remove=0, forever=1)
    f["enter"] = dict(ok=15, raise_=0, ret=1)
    f["dodoer_tock"] = "zero"
    f["always"] = False
    f["max_steps"] = 7
    if not nested:
        f["kinds"] = [k for k in f["kinds"] if k != "dodoer"]
    if tier == "thorough":
        f.update(max_nodes=14, max_depth=4, max_steps=12, max_roots=4)
    return f


def observed(run):
    """per-leaf [(cycle, tyme_sent)], plus structural checks; returns (seqs, problems)"""
    problems = []
    seqs = {}
    cyc = None
    cyc_tyme = None
    ran = set()
    prev_end = None
    T = run.prog["T"]
    for e in run.trace:
        if e[0] == "cycle_begin":
            cyc, cyc_tyme = e[1], e[2]
            ran = set()
        elif e[0] == "cycle_end":
            # tyme advanced by exactly one tock (float add or exact)
            exp = cyc_tyme + T
            if e[2] != exp and abs(Fraction(e[2]) - (Fraction(cyc_tyme) + Fraction(T))) > Fraction(1, 10**9):
                problems.append(("tick", "cycle %d: tyme %r -> %r, tock %r" % (cyc, cyc_tyme, e[2], T)))
            cyc = None
        elif e[0] == "recur":
            nid, sent, seen = e[1], e[2], e[3]
            if cyc is None:
                problems.append(("recur-outside-cycle", "node %d" % nid))
                continue
            if nid in ran:
                problems.append(("twice-in-cycle", "node %d ran twice in cycle %d" % (nid, cyc)))
            ran.add(nid)
            if sent != cyc_tyme or seen != cyc_tyme:
                problems.append(("tyme-observed", "node %d in cycle %d (tyme %r) was sent %r and observed %r" % (
                    nid, cyc, cyc_tyme, sent, seen)))
            seqs.setdefault(nid, []).append((cyc, sent))
    return seqs, problems


def model_seqs(prog, num, quirk):
    m = schedmodel.simulate(prog, num=num, asap_base_now=quirk)
    seqs = {}
    order = []
    for e in m["trace"]:
        if e[0] == "recur":
            seqs.setdefault(e[1], []).append((e[2], e[3]))
            order.append((e[2], e[1]))
    return seqs, order, m


def seq_equal(obs, mod, exact):
    if set(obs) != set(mod):
        return False
    for nid in obs:
        a, b = obs[nid], mod[nid]
        if len(a) != len(b):
            return False
        for (c1, t1), (c2, t2) in zip(a, b):
            if c1 != c2:
                return False
            if exact:
                if t1 != t2:
                    return False
            elif abs(Fraction(t1) - Fraction(t2)) > Fraction(1, 10**9):
                return False
    return True


def run_order(run):
    out = []
    cyc = None
    for e in run.trace:
        if e[0] == "cycle_begin":
            cyc = e[1]
        elif e[0] == "recur":
            out.append((cyc, e[1]))
    return out


def compare_with_model(run, prog, res, leaves_only=False):
    """shared by C03/C04: returns 'ok' | 'F5' | 'bad' and a message"""
    obs, _p = observed(run)
    nested = any(n["kind"] == "dodoer" for n in prog["nodes"].values())
    mf, of_, m_f = model_seqs(prog, float, False)
    if seq_equal(obs, mf, True) and run_order(run) == of_:
        return "ok", "", m_f
    mr, or_, m_r = model_seqs(prog, Fraction, False)
    if seq_equal(obs, mr, False) and run_order(run) == or_:
        res.probes["float_and_rational_models_differ"] += 1
        return "ok", "", m_r
    if nested:
        for num, exact in ((float, True), (Fraction, False)):
            mq, oq, m_q = model_seqs(prog, num, True)
            if seq_equal(obs, mq, exact) and run_order(run) == oq and m_q["f5_trigger"]:
                return "F5", _first_diff(obs, mf), m_q
    return "bad", _first_diff(obs, mf), m_f


def matches_quirk(run, prog):
    """does the run equal the reference model with exactly the F5 switch on (and is F5's trigger present)?"""
    obs, _p = observed(run)
    for num, exact in ((float, True), (Fraction, False)):
        mq, oq, m_q = model_seqs(prog, num, True)
        if seq_equal(obs, mq, exact) and run_order(run) == oq and m_q["f5_trigger"]:
            return True
    return False


def _first_diff(obs, mod):
    for nid in sorted(set(obs) | set(mod)):
        a, b = obs.get(nid, []), mod.get(nid, [])
        if a != b:
            for i in range(max(len(a), len(b))):
                x = a[i] if i < len(a) else None
                y = b[i] if i < len(b) else None
                if x != y:
                    return "node %d recur #%d: ran at (cycle, tyme) %r, model says %r; observed %s model %s" % (
                        nid, i, x, y, a[:8], b[:8])
    return "run order within a cycle differs from enter order"


def run_case(tape, tier):
    res = Result()
    nested = tape.flag("nested", 1, 2)
    feat = feat_for(tier, nested)
    prog = sched.gen_program(tape, feat)
    run = sched.execute(prog, res)
    res.scenario = lambda: dict(program=sched.prog_readable(prog),
                                observed={k: v[:10] for k, v in observed(run)[0].items()})
    res.event_digest = sched.trace_digest(run)
    res.scen_digest = digest(sched.prog_readable(prog))
    if sched.check_runaway(run, res):
        return res
    if run.result != ("return",):
        res.violate("unexpected-raise", "fault-free program raised %r" % (run.result,))
        return res
    obs, problems = observed(run)
    for o, m in problems[:3]:
        res.violate("cycle-" + o, m)
    verdict, msg, _m = compare_with_model(run, prog, res)
    res.comparisons = sum(len(v) for v in obs.values())
    if verdict == "F5":
        res.finding("F5", msg)
    elif verdict == "bad":
        res.violate("cycle-model-mismatch", msg)
    # probes / non-triviality
    T = prog["T"]
    ys = set()
    per_leaf = {}
    for nid, nd in prog["nodes"].items():
        if nd["kind"] != "dodoer" and run.st[nid].entered:
            used = [s["y"] for s in nd["steps"][:run.st[nid].k + 1]]
            per_leaf[nid] = tuple(repr(y) for y in used)
            ys.update(y for y in used)
    nonmult = [y for y in ys if y and (Fraction(y) / Fraction(T)).denominator != 1]
    if nested and any(nd["kind"] == "dodoer" for nd in prog["nodes"].values()):
        res.probes["nested_program"] += 1
    if T in (0.1, 1.0 / 3.0):
        res.probes["nondyadic_tock"] += 1
    if any(y and y < T for y in ys):
        res.probes["yield_smaller_than_tock"] += 1
    if None in ys:
        res.probes["yield_none"] += 1
    res.nontrivial = (len(set(per_leaf.values())) >= 2 and bool(nonmult) and run.cycles >= 6)
    res.sim_time = run.final["tyme"] - prog["t0"]
    res.steps = len(run.trace)
    return res
