"""
C30  Running under asyncio gives the same schedule as the plain loop.
"""
from .. import sched, vloop
from ..core import Result, digest
from . import c01

PID = "C30"
LEVEL = "exploration"
RULE = ("Differential: each seeded doer forest (program space of C01 without real-time mode: all doer kinds, nested "
        "DoDoers, limits, doers that raise / return / KeyboardInterrupt / extend / remove at seeded steps) is run twice from "
        "fresh objects: doist.do() and loop.run_until_complete(doist.ado()) on a virtual-time asyncio loop with 0-3 "
        "noise tasks (sleep(0) / timed sleeps) and, in half the cases, a seeded permutation of every ready batch. Oracle: "
        "identical full event traces (enter/recur with tymes/clean/cease/abort/exit, cycle boundaries, extend/remove "
        "calls), completion cycle, final tyme, done flags of Doist and every doer, forced-exit order, and the same "
        "exception type out of the run. Tocks include 0.0 (everything as soon as possible, tyme stands still). Non-trivial: >= 2 doers, >= 3 cycles, >= 1 noise task and >= 1 loop iteration "
        "in which the ready queue held more than one handle. Distinct: digest of program + noise.")
COMPONENTS = dict(real=["Doist.ado", "Doist.do", "AsyncTimer (constructed)", "asyncio Task/Future/sleep machinery", "all doer kinds"],
                  stub=["asyncio event loop selector/clock (VLoop: virtual time, seeded ready order)"])
ASSUMPTIONS = ["non-real-time mode only (the property's scope)", "noise tasks do not touch hio objects"]
PROBES = ["ready_batch_permuted", "raise_compared", "limit_compared", "kbint_compared", "extend_remove_compared"]
BOUNDS = c01.BOUNDS
TIERS = dict(quick=dict(cases=20000, wall=60.0), thorough=dict(cases=600000, wall=420.0))


def run_case(tape, tier):
    res = Result()
    feat = c01.feat_for(tier)
    feat["real"] = False
    feat["kbint_sleep"] = False
    feat["allow_empty"] = True
    feat["manual_step"] = False      # both runs go through the scheduler's own entry points
    feat["T"] = list(feat["T"]) + [0.0, 100000.0]    # tock 0.0: as soon as possible, tyme stands still; a tock of more than a day
    prog = sched.gen_program(tape, feat)
    nnoise = tape.draw("nnoise", 4)
    noise = []
    for _ in range(nnoise):
        noise.append([tape.pick("noise_d", [0.0, 0.0, 0.001, prog["T"], 0.3]) for _ in range(1 + tape.draw("noise_len", 12))])
    permute = tape.flag("permute", 1, 2)
    # the permutation choices come from their own derived PRNG so that the tape length does not depend on loop internals
    import random
    prng = random.Random(tape.draw("perm_seed", 1 << 30))
    chooser = (lambda n: prng.randrange(n)) if permute else None
    loops = []

    def factory():
        lp = vloop.VLoop(chooser)
        loops.append(lp)
        return lp
    r1 = sched.execute(prog, res, mode="do")
    r2 = sched.execute(prog, None, mode="ado", vloop_factory=factory, noise=noise)
    sched.check_runaway(r1, res)
    res.scenario = lambda: dict(program=sched.prog_readable(prog), noise=noise, permute=permute, result=r1.result)
    t1 = [e for e in r1.trace if e[0] != "do_begin"]
    t2 = [e for e in r2.trace if e[0] != "do_begin"]
    res.event_digest = digest([sched.trace_digest(r1), sched.trace_digest(r2)])
    res.scen_digest = digest(dict(p=sched.prog_readable(prog), n=noise, perm=permute))
    res.comparisons = len(t1)
    if t1 != t2:
        k = next((i for i in range(min(len(t1), len(t2))) if t1[i] != t2[i]), min(len(t1), len(t2)))
        res.violate("ado-trace-differs", "event #%d: do() %r, ado() %r" % (
            k, t1[k] if k < len(t1) else None, t2[k] if k < len(t2) else None))
    elif r1.result != r2.result:
        res.violate("ado-result-differs", "do() %r, ado() %r" % (r1.result, r2.result))
    elif r1.final != r2.final:
        res.violate("ado-final-differs", "do() %r, ado() %r" % (r1.final, r2.final))
    elif r1.alive_at_end != r2.alive_at_end:
        res.violate("ado-alive-differs", "do() %r, ado() %r" % (r1.alive_at_end, r2.alive_at_end))
    lp = loops[0] if loops else None
    if lp is not None and lp.permuted:
        res.probes["ready_batch_permuted"] += 1
    if r1.result[0] == "raise":
        res.probes["raise_compared"] += 1
    if r1.final["done"] is False and r1.result == ("return",):
        res.probes["limit_compared"] += 1
    if res.faults.get("kbint_in_recur"):
        res.probes["kbint_compared"] += 1
    if res.faults.get("extend") or res.faults.get("remove"):
        res.probes["extend_remove_compared"] += 1
    started = [n for n, st in r1.st.items() if st.entered]
    res.nontrivial = len(started) >= 2 and r1.cycles >= 3 and nnoise >= 1 and lp is not None and lp.multi >= 1
    res.faultfree = sum(res.faults.values()) == 0
    res.sim_time = (r1.final["tyme"] - prog["t0"]) * 2
    res.steps = len(t1) + len(t2)
    return res
