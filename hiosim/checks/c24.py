"""
C24  Keyed durable stores match a dictionary model for all keys.
"""
from .. import store
from ..core import Result, digest
from ..models import iosuffix
from hio.base import during

PID = "C24"
ENGINE = "store"
LEVEL = "exploration"
RULE = ("Each case runs a seeded history of up to 40 (thorough 100) operations on a real Suber (put/pin/get/rem), IoSuber "
        "(add/put/pin/get/getFirst/getLast/pop/rem/cnt) or IoSetSuber (the same + rem(val)) on real LMDB, over a key set that is "
        "adversarial by construction: 3-6 keys built from a few base tokens joined by the key separator '_' and the ordinal "
        "separator '.', keys that are prefixes of each other, keys ending in a separator, keys given as tuples, and suffix-shaped "
        "tokens (32 hex digits of small ordinals) so that one key looks like another key's hidden storage form. 'reopen' (close "
        "and open the environment) is injected between operations. Oracle: every return value equals the dictionary model's "
        "(value / list / insertion-ordered set per key) and after every operation all keys of the case are read back and "
        "compared, so an operation on one key that disturbs another is seen at once. Non-trivial: >= 2 keys where one is a "
        "proper prefix of another were both written, and >= 8 operations. Distinct: digest of keys + history.")
COMPONENTS = dict(real=["hio.base.during.Duror (suffix/unsuffix, cursor scans)", "Suber/IoSuber/IoSetSuber", "LMDB"], stub=["nothing (real files in a scratch dir)"],
                  model=["dict model (in the check)", "hiosim/models/iosuffix.py only to classify finding F27"])
ASSUMPTIONS = ["the empty key is not generated (LMDB rejects it)"]
PROBES = ["prefix_pair_written", "suffix_shaped_key", "tuple_keys", "reopen_between_ops", "ioset_duplicate_add", "pop_until_empty", "more_than_16_values"]
BOUNDS = dict(quick=dict(ops=40, keys=6), thorough=dict(ops=100, keys=8))
TIERS = dict(quick=dict(cases=12000, wall=60.0), thorough=dict(cases=150000, wall=420.0))
SIM_TIME_UNIT = "operations"

H0 = "%032x" % 0
H1 = "%032x" % 1
H2 = "%032x" % 2
HA = "%032x" % 10
KEYPOOL = ["a", "b", "ab", "a_b", "a.b", "a.", "a_", ("a", "b"), ("a", ""), "a." + H0, "a." + H1, "a." + HA, "a." + H0 + "." + H0,
           "a." + H0[:-1], "a." + H0 + "x", "b." + H2, "a.0", "a..", ("a." + H0, "b"), "a_b." + H0]
VALS = ["v0", "v1", "v2", "v3", "", "v0"]


def tokey(k):
    if isinstance(k, tuple):
        return "_".join(k).encode()
    return k.encode()


def gen(tape, tier):
    nk = 3 + tape.draw("nkeys", 4 if tier == "quick" else 6)
    keys = []
    # always include a base key; bias towards its extensions
    base = tape.pick("basekey", ["a", "a", "b", "a_b"])
    keys.append(base)
    while len(keys) < nk:
        if tape.flag("extend_base", 1, 2):
            ext = tape.pick("ext", ["." + H0, "." + H1, "." + HA, "." + H0 + "." + H0, "." + H0 + "x", ".", "_", ".0", "_b", ".b", "." + H0[:-1]])
            k = base + ext
        else:
            k = KEYPOOL[tape.draw("key", len(KEYPOOL))]
        if k not in keys and tokey(k) not in [tokey(x) for x in keys]:
            keys.append(k)
    kind = tape.pick("kind", ["io", "ioset", "plain", "io"])
    n = 4 + tape.draw("nops", (40 if tier == "quick" else 100) - 3)
    hist = []
    for _ in range(n):
        k = keys[tape.draw("k", len(keys))]
        if kind == "plain":
            op = ["put", "pin", "get", "rem", "reopen"][tape.weighted("op", [5, 4, 2, 3, 1])]
        elif kind == "io":
            op = ["add", "put", "pin", "get", "first", "last", "pop", "rem", "cnt", "reopen"][tape.weighted("op", [8, 3, 1, 2, 1, 2, 4, 1, 1, 1])]
        else:
            op = ["add", "put", "pin", "get", "first", "last", "pop", "rem", "remval", "cnt", "reopen"][tape.weighted("op", [8, 3, 1, 2, 1, 2, 3, 1, 3, 1, 1])]
        arg = None
        if op in ("add", "remval") or (kind == "plain" and op in ("put", "pin")):
            arg = tape.pick("val", VALS[:4] if op in ("remval",) else VALS[:4])
        elif op in ("put", "pin"):
            if tape.flag("bigput", 1, 6):
                # many values at once (distinct ones, so that sets grow too): ordinals past one and two hex digits
                arg = ["w%02d" % tape.draw("wval", 40) for _ in range(6 + tape.draw("nbig", 20))]
            else:
                arg = [tape.pick("val", VALS[:4]) for _ in range(tape.draw("nvals", 4))]
        hist.append((op, k, arg))
    return kind, keys, hist


def run_case(tape, tier):
    res = Result()
    kind, keys, hist = gen(tape, tier)
    path = store.scratch()
    model = {}
    emu = iosuffix.Emu()
    emu_ok = True
    deviation = None
    written = set()
    try:
        db = store.open_duror(path)

        def mksub():
            if kind == "plain":
                return during.Suber(db=db, subkey="docs.")
            if kind == "io":
                return during.IoSuber(db=db, subkey="ios.")
            return during.IoSetSuber(db=db, subkey="sets.")
        sub = mksub()
        for i, (op, k, arg) in enumerate(hist):
            res.steps += 1
            kb = tokey(k)
            exp = None
            eexp = None
            try:
                if op == "reopen":
                    db.close()
                    db = store.open_duror(path)
                    sub = mksub()
                    res.probes["reopen_between_ops"] += 1
                    res.faults["store_closed_and_reopened"] += 1
                    got = None
                elif kind == "plain":
                    if op == "put":
                        exp = kb not in model
                        if exp:
                            model[kb] = arg
                        got = sub.put(k, arg)
                    elif op == "pin":
                        model[kb] = arg
                        exp = True
                        got = sub.pin(k, arg)
                    elif op == "get":
                        exp = model.get(kb)
                        got = sub.get(k)
                    else:
                        exp = kb in model
                        model.pop(kb, None)
                        got = sub.rem(k)
                    eexp = exp
                else:
                    cur = model.setdefault(kb, [])
                    isset = kind == "ioset"
                    if op == "add":
                        if isset and arg in cur:
                            exp = False
                            res.probes["ioset_duplicate_add"] += 1
                        else:
                            cur.append(arg)
                            exp = True
                        eexp = emu.sadd(kb, arg.encode()) if isset else emu.add(kb, arg.encode())
                        got = sub.add(k, arg)
                    elif op == "put":
                        vals = list(arg)
                        if isset:
                            new = [v for v in dict.fromkeys(vals) if v not in cur]
                            cur.extend(new)
                            exp = bool(new)
                            eexp = emu.sput(kb, [v.encode() for v in vals])
                        else:
                            cur.extend(vals)
                            exp = bool(vals)
                            eexp = emu.put(kb, [v.encode() for v in vals])
                        got = sub.put(k, vals)
                    elif op == "pin":
                        vals = list(arg)
                        model[kb] = list(dict.fromkeys(vals)) if isset else vals
                        exp = bool(vals)
                        eexp = emu.spin(kb, [v.encode() for v in vals]) if isset else emu.pin(kb, [v.encode() for v in vals])
                        got = sub.pin(k, vals)
                    elif op == "get":
                        exp = list(cur)
                        eexp = [v.decode() for v in emu.get(kb)]
                        got = sub.get(k)
                    elif op == "first":
                        exp = cur[0] if cur else None
                        e = emu.first(kb)
                        eexp = e.decode() if e is not None else None
                        got = sub.getFirst(k)
                    elif op == "last":
                        exp = cur[-1] if cur else None
                        e = emu.last(kb)
                        eexp = e.decode() if e is not None else None
                        got = sub.getLast(k)
                    elif op == "pop":
                        exp = cur.pop(0) if cur else None
                        e = emu.pop(kb)
                        eexp = e.decode() if e is not None else None
                        got = sub.pop(k)
                        if exp is not None and not cur:
                            res.probes["pop_until_empty"] += 1
                    elif op == "rem":
                        exp = bool(cur)
                        cur.clear()
                        eexp = emu.rem(kb)
                        got = sub.rem(k)
                    elif op == "remval":
                        exp = arg in cur
                        if exp:
                            cur.remove(arg)
                        eexp = emu.srem(kb, arg.encode())
                        got = sub.rem(k, arg)
                    else:
                        exp = len(cur)
                        eexp = len(emu.get(kb))
                        got = sub.cnt(k)
                    if len(model.get(kb, [])) > 16:
                        res.probes["more_than_16_values"] += 1
            except Exception as ex:
                deviation = ("store-op-raised", "op #%d %s(%r, %r) raised %s: %s" % (i, op, k, arg, type(ex).__name__, str(ex)[:100]))
                emu_ok = False
                break
            if op in ("add", "put", "pin"):
                written.add(kb)
            res.comparisons += 1
            if op != "reopen":
                if got != exp and deviation is None:
                    deviation = ("store-return-value", "op #%d %s(%r, %r) returned %r, dictionary model says %r" % (i, op, k, arg, got, exp))
                if kind != "plain" and got != eexp:
                    emu_ok = False
            # read back every key
            for k2 in keys:
                kb2 = tokey(k2)
                res.comparisons += 1
                if kind == "plain":
                    g = sub.get(k2)
                    e = model.get(kb2)
                    ee = e
                else:
                    g = sub.get(k2)
                    e = list(model.get(kb2, []))
                    ee = [v.decode() for v in emu.get(kb2)]
                if g != e and deviation is None:
                    deviation = ("store-other-key-changed" if kb2 != kb else "store-content",
                                 "after op #%d %s(%r, %r): key %r reads %r, dictionary model says %r" % (i, op, k, arg, k2, g, e))
                if g != ee:
                    emu_ok = False
            if deviation is not None and not emu_ok:
                break
        db.close()
    finally:
        store.cleanup(path)
    # prefix pairs
    kbs = [tokey(k) for k in keys]
    pairs = [(a, b) for a in kbs for b in kbs if a != b and b.startswith(a)]
    f27_pairs = [(a, b) for a, b in pairs if b.startswith(a + b".") and len(b) > len(a) + 1 and chr(b[len(a) + 1]) in "0123456789abcdef"]
    if deviation is not None:
        if kind != "plain" and emu_ok and f27_pairs:
            res.finding("F27", "%s (keys %r and %r interleave in suffix order)" % (deviation[1][:200], f27_pairs[0][0], f27_pairs[0][1]))
        else:
            res.violate(deviation[0], deviation[1])
    if any(a in written and b in written for a, b in pairs):
        res.probes["prefix_pair_written"] += 1
    if f27_pairs:
        res.probes["suffix_shaped_key"] += 1
    if any(isinstance(k, tuple) for k in keys):
        res.probes["tuple_keys"] += 1
    res.nontrivial = any(a in written and b in written for a, b in pairs) and len(hist) >= 8
    res.scenario = lambda: dict(kind=kind, keys=[list(k) if isinstance(k, tuple) else k for k in keys],
                                history=[[o, list(k) if isinstance(k, tuple) else k, a] for o, k, a in hist])
    res.scen_digest = digest(dict(kind=kind, k=[repr(k) for k in keys], h=[[o, repr(k), a] for o, k, a in hist]))
    res.event_digest = digest(dict(d=deviation, s=res.scen_digest))
    res.sim_time = float(len(hist))
    return res
