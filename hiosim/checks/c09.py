"""
C09  TCP/TLS byte streams are delivered exactly, in order, under partial I/O.
"""
from .. import netlab
from ..core import Result, digest

PID = "C09"
ENGINE = "net"
LEVEL = "fault_enumeration"
RULE = ("Each case builds a real hio Server (or ServerTls) and 1-3 Clients (ClientTls) on the fake kernel, draws a buffer "
        "size from {1,7,64,8096}, a pipe capacity from {64,1000,65536}, per-direction lists of tx() payloads (sizes from "
        "{0,1,bs-1,bs,bs+1,300,5000,16385,65536}, capped for tiny buffers) and a swarm of fault rates (partial send, send EAGAIN, "
        "short read, recv EAGAIN, delivery delay, accept EAGAIN, connect EINPROGRESS; for TLS also spurious WantRead/WantWrite, "
        "partial plaintext writes, short plaintext reads). A seeded actor stepper interleaves tx() calls, client.service(), "
        "server.service() and net delivery while faults are on, then drains with faults off. Oracle after every step: what each "
        "side's rxbs holds is a prefix of everything passed to tx() for that direction so far; after the drain it is equal; "
        "each wire log equals the bytes the (fake) kernel / TLS engine actually accepted from and returned to that endpoint. "
        "A third of the clients are given the application's own txbs/rxbs (queued by extending, read from there); in a fifth of the cases the server starts listening late and the clients (reconnectable, tymeout 0.5 or 2) queue before they are connected and go through refused attempts and retry periods in advancing tyme. "
        "Non-trivial: >= 1 partial send and >= 1 short read fired on a connection that carried >= 2 payloads. "
        "Distinct: digest of configuration + payload sizes + the executed actor/fault sequence.")
COMPONENTS = dict(real=["hio.core.tcp.clienting.Client/ClientTls", "hio.core.tcp.serving.Server/ServerTls/Remoter/RemoterTls",
                        "hio.core.wiring.WireLog", "OpenSSL handshake+records via ssl.SSLObject/MemoryBIO"],
                  stub=["kernel TCP sockets (hiosim.net.FakeSocket)", "ssl.SSLSocket transport glue (hiosim.tls.SimSSLSocket)"])
ASSUMPTIONS = ["fake kernel follows Linux TCP semantics as documented in hiosim/net.py", "bounded liveness: delivery completes within the drain bound once faults stop"]
PROBES = ["partial_send_then_continue", "tls_case", "multi_connection", "bs_1", "capacity_backpressure", "wirelog_compared", "empty_payload"]
BOUNDS = dict(quick=dict(conns=3, payloads=5, bytes=65536), thorough=dict(conns=3, payloads=8, bytes=65536))
TIERS = dict(quick=dict(cases=12000, wall=60.0), thorough=dict(cases=500000, wall=420.0))
SIM_TIME_UNIT = "net steps"


def pattern(base, start, n):
    return bytes((base + ((j * 7 + (j >> 6)) & 0x3f)) & 0xff for j in range(start, start + n))


def run_case(tape, tier):
    res = Result()
    tls = tape.flag("tls", 1, 3)
    bs = tape.pick("bs", [8096, 64, 7, 1])
    cap = tape.pick("cap", [1 << 16, 1000, 64])
    nconn = 1 + tape.weighted("nconn", [3, 2, 1])
    rate_choices = [0, 1, 4, 12]
    rates = dict(partial=tape.pick("r_partial", rate_choices), send_eagain=tape.pick("r_seagain", rate_choices),
                 short=tape.pick("r_short", rate_choices), recv_eagain=tape.pick("r_reagain", [0, 1, 4]),
                 delay=tape.pick("r_delay", rate_choices), accept_eagain=tape.pick("r_accept", [0, 4]),
                 inprogress=tape.pick("r_inprog", [0, 8]))
    if tls:
        rates.update(spurious_want=tape.pick("r_want", [0, 1, 4]), tls_partial=tape.pick("r_tlspartial", rate_choices),
                     tls_short=tape.pick("r_tlsshort", rate_choices))
    maxpay = 5 if tier == "quick" else 8
    limit = {1: 300, 7: 2000, 64: 20000}.get(bs, 65536)
    if cap == 64:
        limit = min(limit, 3000)
    if tls:
        limit = min(limit, 20000)
    sizes_all = [0, 1, bs - 1, bs, bs + 1, 300, 5000, 16385, 65536]
    sizes = sorted(set(s for s in sizes_all if 0 <= s <= limit))
    plans = []   # per conn: dict(c2s=[sizes], s2c=[sizes])
    for i in range(nconn):
        plans.append(dict(c2s=[tape.pick("size", sizes) for _ in range(tape.draw("n_c2s", maxpay + 1))],
                          s2c=[tape.pick("size", sizes) for _ in range(tape.draw("n_s2c", maxpay + 1))]))
    second_life = tape.flag("second_life", 1, 4)
    cfg = dict(tls=tls, bs=bs, cap=cap, nconn=nconn, rates=rates, plans=plans, second_life=second_life)
    actions = []

    # the server starts listening late: the clients (set up to retry on a timeout) queue before they are connected and
    # go through refused attempts and retry periods first
    late = 1 + tape.draw("late_server_steps", 30) if tape.flag("late_server", 1, 5) else 0
    tyme = [0.0]
    ckwa = dict(reconnectable=True, tymeout=tape.pick("retry_tymeout", [0.5, 2.0])) if late else {}
    with netlab.Lab(tape, res, tls=tls, bs=bs, capacity=cap, rates=rates, ports=(50001, 50002, 50003),
                    tymth=lambda: tyme[0]) as lab:
        net = lab.net
        if late:
            # every retry takes a new port: with the usual tiny pool two clients end up on each other's former ports and the
            # server's table (keyed by address) then holds the wrong client's abandoned connection under a live client's
            # address, which is C11's ground, not the byte stream's
            net.fresh_ports = True
        lab.make_server(open_=not late)
        opened = [not late]

        def open_server():
            if not opened[0]:
                ok_ = lab.as_owner("server", lab.server.reopen)
                assert ok_, "server did not open"
                opened[0] = True
                res.faults["server_listens_late"] += 1
        appbuf = []  # per client: (txbs, rxbs) supplied by the application and shared with the Client, or None
        for i in range(nconn):
            if tape.flag("own_buffers", 1, 3):
                # the application supplies the buffers (the way a protocol layer shares them): it queues by extending its own
                # txbs and reads what arrived from its own rxbs
                appbuf.append((bytearray(), bytearray()))
                lab.make_client(txbs=appbuf[-1][0], rxbs=appbuf[-1][1], **ckwa)
                res.probes["caller_supplied_buffers"] += 1
            else:
                appbuf.append(None)
                lab.make_client(**ckwa)

        def crx(i):
            return bytes(appbuf[i][1]) if appbuf[i] is not None else bytes(lab.clients[i].rxbs)
        sent = [dict(c2s=bytearray(), s2c=bytearray()) for _ in range(nconn)]
        nxt = [dict(c2s=0, s2c=0) for _ in range(nconn)]
        off = [dict(c2s=0, s2c=0) for _ in range(nconn)]

        def do_tx(i, d):
            k = nxt[i][d]
            plan = plans[i][d]
            if k >= len(plan):
                return False
            base = (i * 0x40) if d == "c2s" else (i * 0x40)
            if d == "s2c":
                rm = lab.remoter_for(i)
                if rm is None:
                    return False
            data = pattern(base, off[i][d], plan[k])
            if d == "c2s":
                if appbuf[i] is not None:
                    appbuf[i][0].extend(data)
                else:
                    lab.clients[i].tx(data)
            else:
                rm.tx(data)
            sent[i][d].extend(data)
            off[i][d] += len(data)
            nxt[i][d] = k + 1
            if not data:
                res.probes["empty_payload"] += 1
            return True

        def check_prefix(final=False):
            for i in range(nconn):
                c = lab.clients[i]
                got = crx(i)
                exp = bytes(sent[i]["s2c"])
                res.comparisons += 1
                if exp[:len(got)] != got:
                    res.violate("stream-not-prefix", "conn %d server->client: client.rxbs (%d bytes) is not a prefix of the %d bytes "
                                "transmitted; first difference at offset %d" % (i, len(got), len(exp), _firstdiff(got, exp)))
                    return False
                if final and got != exp:
                    res.violate("stream-not-delivered", "conn %d server->client: %d of %d bytes delivered after drain "
                                "(txbs left %s)" % (i, len(got), len(exp), len(lab.remoter_for(i).txbs) if lab.remoter_for(i) else None))
                    return False
                rm = lab.remoter_for(i)
                if final and rm is None:
                    res.violate("healthy-connection-dropped", "conn %d: after the drain the server holds no connection for this client "
                                "although no connection-level fault was injected (client connected %s cutoff %s; %d planned server->client "
                                "payloads never handed over)" % (i, c.connected, c.cutoff, len(plans[i]["s2c"]) - nxt[i]["s2c"]))
                    return False
                got = bytes(rm.rxbs) if rm is not None else b""
                exp = bytes(sent[i]["c2s"])
                if exp[:len(got)] != got:
                    res.violate("stream-not-prefix", "conn %d client->server: remoter.rxbs (%d bytes) is not a prefix of the %d bytes "
                                "transmitted; first difference at offset %d" % (i, len(got), len(exp), _firstdiff(got, exp)))
                    return False
                if final and got != exp:
                    res.violate("stream-not-delivered", "conn %d client->server: %d of %d bytes delivered after drain "
                                "(client.txbs left %d, connected %s cutoff %s)" % (i, len(got), len(exp), len(c.txbs), c.connected, c.cutoff))
                    return False
            return True

        acts = []
        for i in range(nconn):
            acts += [("svc_client", i), ("tx_c2s", i), ("tx_s2c", i)]
        acts += [("svc_server", 0), ("net", 0)]
        weights = []
        for a in acts:
            weights.append(dict(svc_client=4, tx_c2s=2, tx_s2c=2, svc_server=5, net=5)[a[0]] + tape.draw("w", 3))
        nsteps = 20 + tape.draw("nsteps", 120 if tier == "quick" else 400)
        ok = True
        for step_ in range(nsteps):
            a = acts[tape.weighted("actor", weights)]
            actions.append(a)
            if late:
                tyme[0] += 0.125
                if step_ >= late:
                    open_server()
            if a[0] == "svc_client":
                lab.svc_client(a[1])
            elif a[0] == "svc_server":
                if opened[0]:
                    lab.svc_server()
            elif a[0] == "net":
                net.step()
            elif a[0] == "tx_c2s":
                do_tx(a[1], "c2s")
            else:
                do_tx(a[1], "s2c")
            res.steps += 1
            if not check_prefix():
                ok = False
                break
        faults_fired = sum(res.faults.values())
        # ---- drain: faults off, round robin, bounded
        if ok:
            net.faults_on = False
            rounds = 0
            open_server()
            # (the clock stands still in the drain: an attempt in progress is not cut short by the retry timer however slow
            # the pipe makes the handshake; refused attempts are retried without waiting for it)
            while rounds < 3000:
                rounds += 1
                for i in range(nconn):
                    do_tx(i, "c2s")
                    do_tx(i, "s2c")
                    lab.svc_client(i)
                lab.svc_server()
                net.step()
                res.steps += 1
                done = all(nxt[i][d] >= len(plans[i][d]) for i in range(nconn) for d in ("c2s", "s2c"))
                if done and all(crx(i) == bytes(sent[i]["s2c"]) and lab.remoter_for(i) is not None and
                                bytes(lab.remoter_for(i).rxbs) == bytes(sent[i]["c2s"]) for i in range(nconn)):
                    break
                if not check_prefix():
                    ok = False
                    break
            if ok:
                ok = check_prefix(final=True)
        # ---- wire logs
        if ok and lab.wirelog:
            for i in range(nconn):
                c = lab.clients[i]
                s = c.cs
                if tls:
                    ktx, krx = bytes(s.plain_tx), bytes(s.plain_rx)
                else:
                    io = net.io_log.get(s.sid, dict(tx=b"", rx=b""))
                    ktx, krx = bytes(io["tx"]), bytes(io["rx"])
                wl = lab.cwls[i]
                res.comparisons += 2
                if wl.readTx() != ktx:
                    res.violate("wirelog-tx", "client %d: wire log tx has %d bytes, the kernel accepted %d; first difference at %d" % (
                        i, len(wl.readTx()), len(ktx), _firstdiff(wl.readTx(), ktx)))
                if wl.readRx() != krx:
                    res.violate("wirelog-rx", "client %d: wire log rx has %d bytes, recv returned %d; first difference at %d" % (
                        i, len(wl.readRx()), len(krx), _firstdiff(wl.readRx(), krx)))
                res.probes["wirelog_compared"] += 1
            # server log: demultiplex by byte range per connection
            stx, srx = lab.swl.readTx(), lab.swl.readRx()
            for i in range(nconn):
                rm = lab.remoter_for(i)
                s = rm.cs
                if tls:
                    ktx, krx = bytes(s.plain_tx), bytes(s.plain_rx)
                else:
                    io = net.io_log.get(s.sid, dict(tx=b"", rx=b""))
                    ktx, krx = bytes(io["tx"]), bytes(io["rx"])
                lo, hi = i * 0x40, i * 0x40 + 0x40
                mtx = bytes(b for b in stx if lo <= b < hi)
                mrx = bytes(b for b in srx if lo <= b < hi)
                res.comparisons += 2
                if mtx != ktx:
                    res.violate("wirelog-tx", "server conn %d: wire log tx has %d bytes, the kernel accepted %d" % (i, len(mtx), len(ktx)))
                if mrx != krx:
                    res.violate("wirelog-rx", "server conn %d: wire log rx has %d bytes, recv returned %d" % (i, len(mrx), len(krx)))
        # ---- second life: the server closes the (now quiet) connection of client 0; the application hands over more bytes while
        # the client is cut off, reopens it and goes on: the new connection carries exactly what was handed over since the cut
        if ok and not res.violations and second_life:
            c = lab.clients[0]
            rm = lab.remoter_for(0)
            if rm is not None and c.connected and not c.cutoff:
                lab.as_owner("server", lab.server.removeIx, rm.ca)
                for _ in range(50):
                    net.step()
                    lab.svc_client(0)
                    if c.cutoff:
                        break
                if c.cutoff:
                    res.faults["server_closed_then_client_reopened"] += 1
                    again = bytearray()
                    base_rx = len(crx(0))

                    def tx2(n):
                        data = pattern(0x80, len(again), n)
                        if appbuf[0] is not None:
                            appbuf[0][0].extend(data)
                        else:
                            c.tx(data)
                        again.extend(data)
                    tx2(1 + tape.draw("second_n1", 200))          # handed over while cut off
                    lab.as_owner("client0", c.reopen)
                    more = 1 + tape.draw("second_n2", 200)
                    sent_more = False
                    rm2 = None
                    for rnd in range(400):
                        lab.svc_client(0)
                        lab.svc_server()
                        net.step()
                        if c.connected and not sent_more:
                            tx2(more)                                # and once connected again
                            sent_more = True
                        rm2 = lab.remoter_for(0)
                        if sent_more and rm2 is not None and rm2 is not rm and bytes(rm2.rxbs) == bytes(again):
                            break
                    got = bytes(rm2.rxbs) if rm2 is not None and rm2 is not rm else b""
                    res.comparisons += 1
                    if got != bytes(again):
                        res.violate("stream-after-reopen", "client 0 was cut off by the server, handed %d more bytes over (the first %d while cut "
                                    "off), reopened: the server received %d bytes on the new connection, first difference at offset %d "
                                    "(client connected %s cutoff %s txbs left %d)" % (len(again), len(again) - (more if sent_more else 0), len(got),
                                                                                      _firstdiff(got, bytes(again)), c.connected, c.cutoff, len(c.txbs)))
        events = list(net.events)
        sim_now = net.now
    res.scenario = lambda: dict(config=cfg, actions=["%s%d" % a for a in actions][:300], faults=dict(res.faults))
    res.scen_digest = digest(dict(c=cfg, a=actions, f=sorted(res.faults.items())))
    res.event_digest = digest([list(map(str, e)) for e in events] if not tls else
                              [list(map(str, e)) for e in events if e[1] not in ("send", "recv")] + [sorted(res.faults.items())])
    f = res.faults
    if f.get("send_partial") or f.get("tls_partial_write") or f.get("send_partial_by_capacity"):
        res.probes["partial_send_then_continue"] += 1
    if tls:
        res.probes["tls_case"] += 1
    if nconn > 1:
        res.probes["multi_connection"] += 1
    if bs == 1:
        res.probes["bs_1"] += 1
    if f.get("send_full") or f.get("send_partial_by_capacity"):
        res.probes["capacity_backpressure"] += 1
    res.faultfree = faults_fired == 0
    partial = f.get("send_partial", 0) + f.get("tls_partial_write", 0) + f.get("send_partial_by_capacity", 0)
    short = f.get("recv_short", 0) + f.get("tls_short_read", 0)
    res.nontrivial = partial >= 1 and short >= 1 and any(len(p["c2s"]) >= 2 or len(p["s2c"]) >= 2 for p in plans)
    res.sim_time = float(sim_now)
    return res


def _firstdiff(a, b):
    n = min(len(a), len(b))
    for i in range(n):
        if a[i] != b[i]:
            return i
    return n
