"""
C06  Runtime extend/remove take effect exactly and preserve membership.
"""
from .. import sched
from ..core import Result, digest

PID = "C06"
LEVEL = "exploration"
RULE = ("Each case draws a doer forest whose scripted doers call extend()/remove() on a scheduler that is on their own "
        "running stack (their parent, grandparent or the Doist; DoDoers mostly always=True) at seeded cycles: extend with new "
        "doers (incl. DoDoers with children, doers that finish in enter) and/or already-present ones; remove of self, "
        "siblings that are due / not yet due / already completed, non-members, DoDoers with live children, ancestors. "
        "Oracle per call: new doers are entered between call and return in argument order and nothing else is; a new doer that does not finish in its enter is not closed inside the call and "
        "recurs in the scheduler's next pass (a later cycle), unless it was removed first; already-present doers are not entered again; removed doers get cease then exit "
        "before remove() returns and never recur afterwards, except doers on the caller's own stack (self / ancestors), "
        "which keep running until they return; after every call and at the end the scheduler's doers list equals the "
        "added-and-not-removed list in insertion order. A quarter of the extend/remove steps return in the same pass (spawn and return, reap and return); a scheduler that completes on its own (DoDoer `clean`, Doist run without limit) force-closes nobody at its exit. Non-trivial: >= 1 extend and >= 1 remove took effect in the same "
        "run, with >= 1 removal of a not-yet-finished sibling. Distinct: digest of program + executed calls.")
COMPONENTS = dict(real=["Doist.extend/remove", "DoDoer.extend/remove", "Doist.recur marker handling", "all doer kinds"],
                  stub=["nothing (virtual time)"])
ASSUMPTIONS = ["targets are schedulers on the caller's running stack (the statement's 'from inside running doers')",
               "duplicates inside one argument list of new doers are not generated ('already present' refers to the scheduler's list)",
               "no exceptions: doers do not raise in this check (C01/C02 cover that)"]
PROBES = ["extend_and_remove_same_cycle", "remove_not_yet_due", "remove_completed", "remove_self", "remove_ancestor",
          "remove_dodoer_with_children", "added_doer_recurred_next_pass", "extend_on_dodoer", "extend_present", "extend_dodoer_with_children", "remove_stranger"]
BOUNDS = dict(quick=dict(nodes=10, depth=3, steps=6), thorough=dict(nodes=16, depth=4, steps=10))
TIERS = dict(quick=dict(cases=40000, wall=60.0), thorough=dict(cases=1200000, wall=420.0))


def feat_for(tier):
    f = sched.default_feat()
    f["acts"] = dict(cont=8, ret=1, raise_=0, kbint=0, extend=3, remove=3, forever=2)
    f["enter"] = dict(ok=14, raise_=0, ret=1)
    f["limit_prob"] = (5, 6)
    f["max_steps"] = 6
    f["max_nodes"] = 10
    f["targets"] = "stack"
    f["dup_args"] = True
    f["ctor_lists"] = True
    if tier == "thorough":
        f.update(max_nodes=16, max_depth=4, max_steps=10, max_roots=4)
    return f


def _is_sched(prog, nid):
    return nid == -1 or prog["nodes"].get(nid, {}).get("kind") == "dodoer"


def run_case(tape, tier):
    res = Result()
    feat = feat_for(tier)
    prog = sched.gen_program(tape, feat)
    prog["targets"] = "stack"
    # DoDoers mostly always=True when there is a limit (statement's domain)
    if prog["limit"] is not None:
        for nd in prog["nodes"].values():
            if nd["kind"] == "dodoer" and tape.flag("always2", 2, 3):
                nd["always"] = True
    run = sched.execute(prog, res)
    calls = [e for e in run.trace if e[0] in ("extend_call", "remove_call")]
    res.scenario = lambda: dict(program=sched.prog_readable(prog),
                                calls=[list(e) for e in run.trace if e[0].startswith(("extend_", "remove_"))])
    res.event_digest = sched.trace_digest(run)
    res.scen_digest = digest(dict(p=sched.prog_readable(prog), c=[list(e) for e in calls]))
    if sched.check_runaway(run, res):
        return res
    if run.result != ("return",):
        res.violate("unexpected-raise", "program without raising doers raised %r" % (run.result,))
        return res
    check(run, res)
    res.sim_time = run.final["tyme"] - prog["t0"]
    res.steps = len(run.trace)
    res.faultfree = not calls
    return res


def check(run, res):
    prog = run.prog
    tr = run.trace
    nodes = prog["nodes"]

    def parent_sid(nid):
        st = run.st[nid]
        return run.sid(st.parent) if st.parent is not None else None

    def ancestors(nid):
        out = []
        cur = nid
        while True:
            p = parent_sid(cur)
            if p is None or p == -1:
                break
            out.append(p)
            cur = p
        return out

    def subtree(nid):
        out = [nid]
        for c in nodes[nid].get("children", []):
            out += subtree(c)
        # children added at runtime
        for k, st in run.st.items():
            if st.parent is not None and run.sid(st.parent) == nid and k not in out:
                out += subtree(k)
        return out

    # model membership per scheduler
    member = {-1: list(prog["roots"])}
    for nid, nd in nodes.items():
        if nd["kind"] == "dodoer":
            member[nid] = list(nd["children"])
    cyc = None
    cyc_of = {}
    i = 0
    n = len(tr)
    did_ext = did_rm_alive = False
    first_recur_due = []      # (doer added by extend and still running after it, scheduler, trace index of the return)
    ext_cycles, rm_cycles = set(), set()
    while i < n:
        e = tr[i]
        if e[0] == "cycle_begin":
            cyc = e[1]
        elif e[0] == "cycle_end":
            res.comparisons += 1
            if e[3] != member[-1]:
                res.violate("membership-after-cycle", "after cycle %d Doist.doers is %s, added-and-not-removed is %s" % (
                    e[1], e[3], member[-1]))
                return
        elif e[0] == "extend_call":
            caller, sid, arg, before = e[1], e[2], e[3], e[4]
            res.comparisons += 1
            if before != member[sid]:
                res.violate("membership-drift", "scheduler %d doers %s before extend, expected %s" % (sid, before, member[sid]))
                return
            j = i + 1
            while j < n and not (tr[j][0] in ("extend_return", "extend_raise") and tr[j][1] == caller and tr[j][2] == sid):
                j += 1
            if j >= n or tr[j][0] != "extend_return":
                res.violate("extend-raised", "extend on %d by %d did not return normally" % (sid, caller))
                return
            after = tr[j][3]
            new = []
            for a in arg:
                if a not in before and a not in new:
                    new.append(a)
            if any(a in before for a in arg):
                res.probes["extend_present"] += 1
            if sid != -1:
                res.probes["extend_on_dodoer"] += 1
            if after != before + new:
                res.violate("extend-membership", "extend(%s) on %d: doers %s -> %s, expected %s" % (arg, sid, before, after, before + new))
                return
            member[sid] = list(after)
            # events inside the call
            inside = tr[i + 1:j]
            allowed = set()
            for x in new:
                allowed.update(subtree(x))
                if nodes[x]["kind"] == "dodoer" and nodes[x]["children"]:
                    res.probes["extend_dodoer_with_children"] += 1
            entered = [x[1] for x in inside if x[0] == "enter" and x[1] in new]
            if entered != new:
                res.violate("extend-enter", "extend(%s) on %d entered %s between call and return, expected %s" % (arg, sid, entered, new))
                return
            for x in inside:
                if x[0] in ("enter", "recur", "clean", "cease", "abort", "exit") and x[1] not in allowed:
                    res.violate("extend-side-effect", "during extend(%s) on %d: unexpected event %s" % (arg, sid, x))
                    return
                if x[0] == "recur":
                    res.violate("extend-recur-inside", "doer %d recurred inside extend()" % x[1])
                    return
                if x[0] in ("clean", "cease", "abort", "exit") and x[1] in allowed and not (
                        nodes[x[1]]["kind"] != "dodoer" and nodes[x[1]].get("enter") == "ret" and x[0] in ("clean", "exit")):
                    # only a doer that returns before its first yield may finish inside the call that adds it
                    res.violate("extend-closed-inside", "during extend(%s) on %d: the added doer %d got %r inside the call although it "
                                "does not finish in its enter" % (arg, sid, x[1], x[0]))
                    return
            for x in new:
                if nodes[x]["kind"] == "dodoer" or nodes[x].get("enter") == "ok":
                    first_recur_due.append((x, sid, j))
            for x in new:
                cyc_of[x] = cyc
            if new:
                did_ext = True
                ext_cycles.add(cyc)
            i = j
        elif e[0] == "remove_call":
            caller, sid, arg, before = e[1], e[2], e[3], e[4]
            res.comparisons += 1
            if before != member[sid]:
                res.violate("membership-drift", "scheduler %d doers %s before remove, expected %s" % (sid, before, member[sid]))
                return
            j = i + 1
            while j < n and not (tr[j][0] == "remove_return" and tr[j][1] == caller and tr[j][2] == sid):
                j += 1
            if j >= n:
                res.violate("remove-raised", "remove on %d by %d did not return" % (sid, caller))
                return
            after = tr[j][3]
            removed = [a for a in arg if a in before]
            if any(a not in before for a in arg):
                res.probes["remove_stranger"] += 1
            want_after = [x for x in before if x not in removed]
            if after != want_after:
                res.violate("remove-membership", "remove(%s) on %d: doers %s -> %s, expected %s" % (arg, sid, before, after, want_after))
                return
            member[sid] = list(after)
            stack = [caller] + ancestors(caller)
            inside = tr[i + 1:j]
            allowed = set()
            for r in removed:
                alive = _alive_at(tr, r, i)
                started = _started_before(tr, r, i)
                if r in stack:
                    res.probes["remove_self" if r == caller else "remove_ancestor"] += 1
                    continue        # keeps running until it returns
                if not started or not alive:
                    res.probes["remove_completed"] += 1
                    continue
                did_rm_alive = True
                rm_cycles.add(cyc)
                allowed.update(subtree(r))
                if nodes[r]["kind"] == "dodoer" and any(_alive_at(tr, c, i) for c in subtree(r)[1:]):
                    res.probes["remove_dodoer_with_children"] += 1
                if not _ran_in_cycle(tr, r, i):
                    res.probes["remove_not_yet_due"] += 1
                evs = [x[0] for x in inside if len(x) > 1 and x[1] == r and x[0] in ("cease", "exit", "abort", "clean", "recur")]
                if evs != ["cease", "exit"]:
                    res.violate("remove-not-closed", "remove(%s) on %d: doer %d got %s between call and return, expected cease, exit" % (
                        arg, sid, r, evs))
                    return
                later = [x for x in tr[j:] if x[0] == "recur" and x[1] == r]
                if later:
                    res.violate("remove-recur-after", "removed doer %d recurred after remove() returned" % r)
                    return
            for x in inside:
                if x[0] in ("enter", "recur", "clean", "cease", "abort", "exit") and x[1] not in allowed:
                    res.violate("remove-side-effect", "during remove(%s) on %d: unexpected event %s" % (arg, sid, x))
                    return
            i = j
        elif e[0] == "recur" and e[1] in cyc_of:
            if cyc_of[e[1]] is not None and cyc == cyc_of[e[1]]:
                res.violate("extend-recur-same-cycle", "doer %d added by extend in cycle %s recurred in the same cycle" % (e[1], cyc))
                return
            del cyc_of[e[1]]
        i += 1
    # a doer added at runtime recurs in the scheduler's next pass (unless it is closed before its turn)
    for x, sid, j in first_recur_due:
        if sid == -1:
            p1 = next((k for k in range(j, n) if tr[k][0] == "cycle_begin"), None)
            p2 = None if p1 is None else next((k for k in range(p1, n) if tr[k][0] == "cycle_end"), None)
        else:
            p1 = next((k for k in range(j, n) if tr[k][0] == "recur" and tr[k][1] == sid), None)
            p2 = None if p1 is None else next((k for k in range(p1, n) if tr[k][0] == "recur_end" and tr[k][1] == sid), None)
        if p1 is None or p2 is None:
            continue        # the scheduler never completed another pass
        res.comparisons += 1
        if any(tr[k][0] == "recur" and tr[k][1] == x for k in range(p1, p2)):
            res.probes["added_doer_recurred_next_pass"] += 1
            continue
        if any(tr[k][0] in ("cease", "exit", "abort") and len(tr[k]) > 1 and tr[k][1] == x for k in range(j, p2)):
            continue        # removed / force-closed before its turn
        res.violate("extend-no-recur-next-pass", "doer %d added to scheduler %d by extend did not recur in the scheduler's next pass "
                    "(trace %d..%d)" % (x, sid, p1, p2))
        return
    # nobody is force-closed out of the blue: a forced close (cease) happens inside a remove() call, inside an extend() call (a
    # failed enter closes the ones entered before it) or while some scheduler exits - never in the middle of a scheduler's pass
    depth = 0
    for k in range(n):
        e = tr[k]
        if e[0] in ("remove_call", "extend_call", "exit_begin"):
            depth += 1
        elif e[0] in ("remove_return", "extend_return", "extend_raise", "exit") and (e[0] != "exit" or _is_sched(prog, e[1])):
            depth = max(0, depth - 1)
        elif e[0] == "cease" and depth == 0:
            res.comparisons += 1
            res.violate("closed-out-of-the-blue", "doer %s was force-closed (cease) outside every remove()/extend() call and outside every "
                        "scheduler exit: its scheduler lost it while it was still running" % (e[1],))
            return
    # a scheduler that ends because it is done ends when its last doer has completed, including the ones added at runtime:
    # nobody who was not removed is force-closed at the end.  (A DoDoer that completed shows `clean`; a Doist run without a
    # limit that returned completed too.)
    ended_done = set(e[1] for e in tr if e[0] == "clean" and prog["nodes"].get(e[1], {}).get("kind") == "dodoer")
    if prog["limit"] is None and run.result == ("return",):
        ended_done.add(-1)
    for sid_ in sorted(ended_done):
        b = next((k for k in range(n) if tr[k][0] == "exit_begin" and tr[k][1] == sid_), None)
        if b is None:
            continue
        e_ = next((k for k in range(b, n) if tr[k][0] == "exit" and tr[k][1] == sid_), n)
        cut = [tr[k][1] for k in range(b, e_) if tr[k][0] == "cease"]
        res.comparisons += 1
        if cut:
            res.violate("ended-with-live-doers", "scheduler %s completed (nothing interrupted it) while its doers %s were "
                        "still running: they were force-closed at its exit" % (sid_, cut))
            return
    # final membership
    res.comparisons += 1
    if run.final["doers"] != member[-1]:
        res.violate("membership-final", "final Doist.doers %s expected %s" % (run.final["doers"], member[-1]))
    for nid, nd in nodes.items():
        if nd["kind"] == "dodoer":
            got = run.ids_of(run.objs[nid].doers)
            if got != member[nid]:
                res.violate("membership-final", "final doers of DoDoer %d are %s expected %s" % (nid, got, member[nid]))
    if ext_cycles & rm_cycles:
        res.probes["extend_and_remove_same_cycle"] += 1
    res.nontrivial = did_ext and did_rm_alive


def _alive_at(tr, nid, pos):
    ent = ex = False
    for e in tr[:pos]:
        if len(e) > 1 and e[1] == nid:
            if e[0] == "enter":
                ent = True
            elif e[0] == "exit":
                ex = True
    return ent and not ex


def _started_before(tr, nid, pos):
    return any(e[0] == "enter" and e[1] == nid for e in tr[:pos])


def _ran_in_cycle(tr, nid, pos):
    k = pos
    while k >= 0 and tr[k][0] != "cycle_begin":
        if tr[k][0] == "recur" and tr[k][1] == nid:
            return True
        k -= 1
    return False
