"""
C22  Memo receivers survive arbitrary datagrams and accept only authentic memos.
"""
from .. import gram as gr
from ..core import Result, digest
from hio.core.udp import peermemoing
from hio.core.memo import memoing

PID = "C22"
ENGINE = "gram"
LEVEL = "fault_enumeration"
RULE = ("Each case has 1-2 real sender PeerMemoers (signed and/or unsigned codes, base64 or binary headers, real Ed25519 keys) and one "
        "real receiver on the fake datagram kernel; the receiver requires signed grams (authic) in two cases of three. Valid "
        "grams of 1-4 memos are mixed, in seeded order, with hostile datagrams built from them: single-byte mutations at any offset "
        "(head, neck, memo id, signer id, body, signature), truncation at any length, unknown codes (bAAZ ...), ack codes (bAAI/bAAJ), "
        "non-ASCII bytes in the code, non-base64 characters in the neck, gram numbers at or beyond the count, counts of zero, invalid "
        "UTF-8 bodies, a gram re-signed by a different key under the same memo id, (for a signer whose transferable identifier has a rotated "
        "key) a gram signed with the rotated-out key, random bytes, 1-3 byte datagrams. Hostile copies "
        "may arrive before or after the genuine gram. Oracle: serviceAllRx never raises; every delivered (text, signer id) of an "
        "authic receiver equals one sent exactly; genuine memos whose grams were all delivered in zeroth-first order without "
        "interference still arrive. Non-trivial: >= 3 hostile datagrams of >= 2 kinds were delivered between genuine grams of a "
        "multi-gram memo. Distinct: digest of the delivered datagram sequence.")
COMPONENTS = dict(real=["hio.core.memo.memoing.Memoer (wiff, pick, verify, fuse, rx services)", "hio.core.udp.peermemoing.PeerMemoer", "pysodium Ed25519"],
                  stub=["datagram kernel and hostile sender (FakeDgram deliveries)"])
ASSUMPTIONS = ["forging a valid Ed25519 signature is not attempted; tampering means altering signed bytes or re-signing with another key"]
PROBES = ["mutation_in_signature", "mutation_in_body", "mutation_in_head", "truncation", "unknown_code", "ack_code", "gram_number_beyond_count",
          "invalid_utf8_body", "resigned_by_other_key", "random_bytes", "complete_unsigned_memo", "authic_receiver_without_keys", "hostile_before_genuine", "authic_receiver"]
BOUNDS = dict(quick=dict(memos=4, hostile=12), thorough=dict(memos=6, hostile=24))
TIERS = dict(quick=dict(cases=30000, wall=60.0), thorough=dict(cases=1200000, wall=420.0))
SIM_TIME_UNIT = "deliveries"


def run_case(tape, tier):
    res = Result()
    authic = tape.flag("authic", 2, 3)
    nsend = 1 + tape.draw("nsenders", 2)
    net = gr.DgramNet(tape, res)
    kinds_used = set()
    with gr.installed(net, uuid_seed=tape.draw("uuid_seed", 1 << 16)):
        senders = []
        keep = {}
        for s in range(nsend):
            code = tape.pick("code", ["bAAC", "bAAG"] if authic else ["bAAA", "bAAC", "bAAE", "bAAG"])
            signed = code in ("bAAC", "bAAG")
            curt = tape.flag("curt", 1, 3)
            ks = tape.draw("keyseed", 100)
            vid, keyage = gr.make_identity(b"c22-%d-%d" % (s, ks))
            old_keyage = None
            if signed and tape.flag("rotated_key", 1, 3):
                # a transferable identifier ('D') whose current signing key (in everybody's keep) is no longer the one the
                # identifier was derived from; the rotated-out key is what an attacker may hold
                vid, old_keyage = gr.make_identity(b"c22-%d-%d" % (s, ks), code="D")
                _v, keyage = gr.make_identity(b"c22-rotated-%d-%d" % (s, ks))
            keep[vid] = keyage
            bz, nz, mz, vz, az = memoing.Memoer.Sizes[code]
            oz = bz + nz + mz + vz + az
            size = oz + tape.pick("size_extra", [8, 24, 80])
            pm = peermemoing.PeerMemoer(name="s%d" % s, ha=("127.0.0.1", 55210 + s), code=code, curt=curt, size=size,
                                        vid=vid if signed else None, keep={vid: keyage} if signed else None)
            assert pm.reopen()
            senders.append(dict(pm=pm, code=code, signed=signed, curt=curt, vid=vid if signed else None, old_keyage=old_keyage))
        evil_vid, evil_key = gr.make_identity(b"evil")
        # a receiver that requires signatures need not hold any key when every signer uses an identifier that carries its own
        # verification key (non-transferable): then it is given none
        lean = authic and all(sd["old_keyage"] is None for sd in senders) and tape.flag("receiver_without_keys", 1, 3)
        if lean:
            res.probes["authic_receiver_without_keys"] += 1
        rx = peermemoing.PeerMemoer(name="rx", ha=("127.0.0.1", 55201), authic=authic, keep=None if lean else keep)
        assert rx.reopen()
        sent = []        # (text, vid)
        genuine = []     # (wire index, memo index, gn, count)
        nm = 1 + tape.draw("nmemos", 4 if tier == "quick" else 6)
        for m in range(nm):
            s = senders[tape.draw("sender", nsend)]
            n = 1 + tape.draw("memo_len", 60)
            text = "".join("abcdefghijklmnopqrstuvwxyzé中"[(m * 7 + j * 3) % 28] for j in range(n))
            before = len(net.wire)
            s["pm"].memoit(text, rx.ha, s["vid"])
            s["pm"].serviceAllTx()
            cnt = len(net.wire) - before
            sent.append((text, s["vid"], s))
            for gn in range(cnt):
                genuine.append((before + gn, m, gn, cnt))

        def hostile(base):
            """build one hostile datagram from genuine gram bytes `base` (sender dict sd)"""
            wi, m, gn, cnt = base
            src, dst, data = net.wire[wi]
            sd = sent[m][2]
            data = bytearray(data)
            k = tape.draw("hostile_kind", 13)
            if k == 12:
                # a complete memo that is not signed at all (a receiver that requires signatures must not deliver it)
                plain = peermemoing.PeerMemoer(name="evilplain", ha=("127.0.0.1", 55299), code="bAAA", size=400)
                data = bytearray(plain.rend("EVIL-unsigned memo %d" % m)[0])
                kind = "complete_unsigned_memo"
                return bytes(data), kind, src
            if k == 0:
                i = tape.draw("mut_at", len(data))
                data[i] ^= 1 + tape.draw("mut_xor", 255)
                _b, nz, mz, vz, az = memoing.Memoer.Sizes[sd["code"]]
                kind = "mutation_in_signature" if az and i >= len(data) - (az if not sd["curt"] else 3 * az // 4) else (
                    "mutation_in_head" if i < 32 else "mutation_in_body")
            elif k == 1:
                data = data[:tape.draw("trunc_at", len(data))]
                kind = "truncation"
            elif k == 2 and not sd["curt"]:
                data[0:4] = tape.pick("badcode", [b"bAAZ", b"bAAK", b"bZZZ", b"b___", b"bAA-"])
                kind = "unknown_code"
            elif k == 3 and not sd["curt"]:
                data[0:4] = tape.pick("ackcode", [b"bAAI", b"bAAJ"])
                kind = "ack_code"
            elif k == 4 and not sd["curt"]:
                data[1:4] = tape.pick("nonascii", [b"\xff\xfe\xfd", b"A\x80A", b"\xc3\x28A"])
                kind = "unknown_code"
            elif k == 5 and not sd["curt"]:
                data[4:8] = tape.pick("badneck", [b"!!!!", b"AA!A", b"\xff\xff\xff\xff", b"    ", b"AAA="])
                kind = "mutation_in_head"
            elif k == 6 and not sd["curt"] and not sd["signed"]:
                # non-zeroth gram with a number at or beyond the count, same memo id
                mid = bytes(data[8:32])
                num = tape.pick("bignum", [cnt, cnt + 1, 9, 4095])
                from hio.help import helping
                data = bytearray(b"bAAB" if sd["code"] == "bAAA" else b"bAAF") + helping.intToB64b(num, l=4) + mid + b"zz"
                kind = "gram_number_beyond_count"
            elif k == 7 and not sd["signed"]:
                data += tape.pick("badutf8", [b"\xff\xfe", b"\xc3\x28", b"\x80"])
                kind = "invalid_utf8_body"
            elif k == 8 and sd["signed"] and not sd["curt"] and gn == 0:
                # same memo id, other signer: re-signed zeroth gram with altered body
                bz, nz, mz, vz, az = memoing.Memoer.Sizes[sd["code"]]
                head = bytes(data[:bz + nz + mz]) + evil_vid.encode()
                body = b"EVIL" + bytes(data[bz + nz + mz + vz:len(data) - az])[4:]
                fake = peermemoing.PeerMemoer.__new__(peermemoing.PeerMemoer)
                fake._keep = {evil_vid: evil_key}
                fake._curt = False
                sig = memoing.Memoer.sign(fake, evil_vid, head + body)
                data = bytearray(head + body + sig)
                kind = "resigned_by_other_key"
            elif k == 11 and sd["signed"] and sd["old_keyage"] is not None and not sd["curt"] and gn == 0:
                # same signer id, altered body, signed with the key that was rotated out
                bz, nz, mz, vz, az = memoing.Memoer.Sizes[sd["code"]]
                head = bytes(data[:bz + nz + mz + vz])
                body = b"EVIL" + bytes(data[bz + nz + mz + vz:len(data) - az])[4:]
                fake = peermemoing.PeerMemoer.__new__(peermemoing.PeerMemoer)
                fake._keep = {sd["vid"]: sd["old_keyage"]}
                fake._curt = False
                sig = memoing.Memoer.sign(fake, sd["vid"], head + body)
                data = bytearray(head + body + sig)
                kind = "signed_with_rotated_out_key"
            elif k == 9:
                data = bytearray(tape.draw("rb", 256) for _ in range(1 + tape.draw("rand_n", 80)))
                kind = "random_bytes"
            elif k == 10 and not sd["curt"] and gn == 0 and not sd["signed"]:
                data[4:8] = b"AAAA"      # count of zero
                kind = "mutation_in_head"
            else:
                data = bytearray(tape.pick("tiny", [b"b", b"bA", b"bAA", b"l", b"l\x00", b"\x00"]))
                kind = "truncation"
            return bytes(data), kind, src

        # ---- schedule: genuine grams in order, hostile ones inserted around them
        nh = tape.draw("nhostile", 12 if tier == "quick" else 24)
        schedule = [("g", g) for g in genuine]
        clean_memos = set(range(nm))
        hostile_list = []
        for _ in range(nh):
            base = genuine[tape.draw("hostile_base", len(genuine))]
            data, kind, src = hostile(base)
            pos = tape.draw("hostile_pos", len(schedule) + 1)
            schedule.insert(pos, ("h", (data, kind, src, base[1])))
            hostile_list.append(kind)
            kinds_used.add(kind)
            res.faults[kind] += 1
            clean_memos.discard(base[1])
        err = None
        delivered = []
        every = 1 + tape.draw("service_every", 4)
        try:
            for k, (t, item) in enumerate(schedule):
                if t == "g":
                    src, dst, data = net.wire[item[0]]
                    net.deliver(rx.ha[1], data, src)
                else:
                    data, kind, src, _m = item
                    net.deliver(rx.ha[1], data, src)
                res.steps += 1
                if (k + 1) % every == 0:
                    rx.serviceAllRx()
            # drain: a zero-length datagram reads like "nothing more to receive" and ends one service pass early; what is
            # queued behind it is received by the following passes (a delay, not a loss)
            for _ in range(len(schedule) + 3):
                rx.serviceAllRx()
        except Exception as ex:
            import traceback
            tb = traceback.extract_tb(ex.__traceback__)
            err = "%s: %s (in %s)" % (type(ex).__name__, str(ex)[:100], tb[-1].name if tb else "?")
        delivered = [(t, v) for t, _src, v in rx.inbox]
        for s in senders:
            s["pm"].close()
        rx.close()
    res.comparisons = len(delivered) + 1
    res.sim_time = float(len(schedule))
    sent_pairs = [(t, v) for t, v, _s in sent]
    if err:
        res.violate("rx-raised", "serviceAllRx raised %s; hostile kinds delivered: %s" % (err, sorted(kinds_used)))
    else:
        if authic:
            for d in delivered:
                if d[1] == evil_vid and d[0].startswith("EVIL") and not d[0].startswith("EVIL-unsigned"):
                    continue     # a complete, validly signed memo of the other signer: authentic for its claimed signer
                if d not in sent_pairs:
                    res.violate("inauthentic-memo-delivered", "receiver requiring signatures delivered %r signed by %s, which no sender sent "
                                "(sent: %s)" % (d[0][:40], d[1], [(t[:20], v) for t, v in sent_pairs]))
                    break
        # untouched memos must still arrive (zeroth-first order, no hostile copy derived from them)
        for m in clean_memos:
            if sent_pairs[m] not in delivered:
                res.violate("genuine-memo-lost", "memo %d was delivered completely and in order and no hostile datagram was derived from it, "
                            "but it did not arrive" % m)
                break
    for kname in kinds_used:
        res.probes[kname] += 1
    if authic:
        res.probes["authic_receiver"] += 1
    if any(s["old_keyage"] is not None for s in senders):
        res.probes["rotated_signer_key"] += 1
    first_g = next((i for i, (t, _x) in enumerate(schedule) if t == "g"), None)
    if first_g is not None and any(t == "h" for t, _x in schedule[:first_g + 1]):
        res.probes["hostile_before_genuine"] += 1
    res.faultfree = not hostile_list
    res.nontrivial = len(hostile_list) >= 3 and len(kinds_used) >= 2 and any(g[3] >= 2 for g in genuine)
    res.scenario = lambda: dict(authic=authic, senders=[dict(code=s["code"], curt=s["curt"]) for s in senders],
                                memos=[(len(t), v is not None) for t, v, _s in sent], hostile=hostile_list,
                                schedule=[(t, (x[1], x[2]) if t == "g" else x[1]) for t, x in schedule][:80])
    res.scen_digest = digest([net.wire[x[0]][2].hex() if t == "g" else x[0].hex() for t, x in schedule])
    res.event_digest = digest(dict(d=delivered, e=err))
    return res
