"""
C01  Every doer runs a well-formed lifecycle on every exit path.
"""
from .. import sched, sched_oracles
from ..core import Result, digest

PID = "C01"
LEVEL = "fault_enumeration"
RULE = ("Each case draws a doer forest (<= 8 nodes quick / 14 thorough, depth <= 3, all six doer kinds, "
        "DoDoers with any tock, optional always) with a per-doer script of yields and faults "
        "(raise in enter / at recur k, KeyboardInterrupt or SystemExit in enter, return truthy/falsy/None at enter / recur k, KeyboardInterrupt inside a recur, "
        "KeyboardInterrupt out of sleep in real mode, runtime extend incl. already-present and failing enter, "
        "runtime remove of self / siblings / completed / strangers / DoDoers, limit expiry incl. non-multiples of tock, exit contexts that call remove([]) / extend([]) on their scheduler) "
        "and runs it under hio's real Doist. Non-trivial: >= 2 doers started and >= 1 fault fired while another doer "
        "was alive. Distinct: digest of the executed program + fault list.")
COMPONENTS = dict(real=["hio.base.doing.Doist", "DoDoer", "Doer", "doify", "doize", "hio.base.tyming", "python generators"],
                  stub=["wall clock / sleep (SimClock at doing.time, timing.time)"])
ASSUMPTIONS = ["CPython 3.12 generator semantics (close() returns None)",
               "lifecycle hooks other than enter/recur do not raise (double faults are outside the statement)",
               "function-style doers use hio's documented bareDo try/except/else/finally template"]
PROBES = ["exception_mid_cycle_with_live_doers_both_sides", "enter_failure_inside_extend",
          "remove_of_dodoer_with_live_children", "kbint_in_class_doer", "limit_stop_with_nested_alive",
          "kbint_in_sleep"]
BOUNDS = dict(quick=dict(nodes=8, depth=3, steps=5), thorough=dict(nodes=14, depth=4, steps=8))
TIERS = dict(quick=dict(cases=40000, wall=60.0), thorough=dict(cases=1500000, wall=420.0))


def feat_for(tier):
    f = sched.default_feat()
    f["acts"] = dict(cont=8, ret=2, raise_=1, kbint=1, extend=2, remove=2, forever=1)
    f["manual_step"] = True
    f["enter"] = dict(ok=14, raise_=1, ret=1, kbint=1, sysexit=1)
    f["real"] = True
    f["kbint_sleep"] = True
    f["exit_touch"] = True
    if tier == "thorough":
        f.update(max_nodes=14, max_depth=4, max_steps=8, max_roots=4)
    return f


def probes(run, res):
    tr = run.trace
    # exception mid-cycle with live doers on both sides
    for i, e in enumerate(tr):
        if e[0] == "raise":
            res.probes["doer_raised"] += 1
    if run.result and run.result[0] == "raise":
        res.probes["do_raised"] += 1
    for e in tr:
        if e[0] == "extend_raise":
            res.probes["enter_failure_inside_extend"] += 1
        if e[0] == "kbint" and run.prog["nodes"][e[1]]["kind"] in ("doer", "gendoer"):
            res.probes["kbint_in_class_doer"] += 1
        if e[0] == "kbint_sleep":
            res.probes["kbint_in_sleep"] += 1
    # limit stop with nested alive
    if run.result == ("return",) and run.final["done"] is False:
        for nid, nd in run.prog["nodes"].items():
            if nd["kind"] == "dodoer" and any(e[0] == "cease" and e[1] == nid for e in tr):
                res.probes["limit_stop_with_nested_alive"] += 1
                break
    # remove of dodoer with live children
    for i, e in enumerate(tr):
        if e[0] == "remove_call":
            for rid in e[3]:
                if rid is not None and run.prog["nodes"][rid]["kind"] == "dodoer":
                    res.probes["remove_of_dodoer_with_live_children"] += 1
    # mid-cycle exception with live doers on both sides: look at the last cycle
    last_begin = max((i for i, e in enumerate(tr) if e[0] == "cycle_begin"), default=None)
    if last_begin is not None and run.result and run.result[0] == "raise":
        ran = [e[1] for e in tr[last_begin:] if e[0] == "recur" and run.st[e[1]].parent is run.doist]
        roots_alive = [n for n in run.doist_roots_entered if n not in ran]
        if len(ran) >= 2 and roots_alive:
            res.probes["exception_mid_cycle_with_live_doers_both_sides"] += 1


def run_case(tape, tier):
    res = Result()
    feat = feat_for(tier)
    prog = sched.gen_program(tape, feat)
    run = sched.execute(prog, res)
    res.scenario = lambda: dict(program=sched.prog_readable(prog), result=run.result,
                                trace_len=len(run.trace), faults=dict(res.faults))
    res.event_digest = sched.trace_digest(run)
    res.scen_digest = digest(dict(p=sched.prog_readable(prog), f=sorted(res.faults.items())))
    sched.check_runaway(run, res)
    res.comparisons = sched_oracles.check_lifecycle(run, res)
    started = [n for n, st in run.st.items() if st.entered]
    run.doist_roots_entered = [n for n in started if run.st[n].parent is run.doist]
    probes(run, res)
    nfault = sum(res.faults.values())
    res.faultfree = nfault == 0
    res.nontrivial = len(started) >= 2 and nfault >= 1 and _fault_with_other_alive(run)
    res.sim_time = run.final["tyme"] - prog["t0"]
    res.steps = len(run.trace)
    return res


FAULT_EVENTS = ("raise", "kbint", "kbint_sleep", "extend_call", "remove_call")


def _fault_with_other_alive(run):
    alive = set()
    for e in run.trace:
        if e[0] == "enter":
            alive.add(e[1])
        elif e[0] == "exit" and e[1] != -1:
            alive.discard(e[1])
        elif e[0] in FAULT_EVENTS:
            who = e[1] if e[0] != "kbint_sleep" else None
            if len(alive - {who}) >= 1:
                return True
    # limit expiry with doers alive counts as a fault that fired
    if run.result == ("return",) and run.final["done"] is False and any(e[0] == "cease" for e in run.trace):
        return True
    return False
