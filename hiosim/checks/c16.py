"""
C16  No client-sent bytes can make the HTTP server's service loop raise
     (and no response bytes the client's).
"""
from ..core import CaseTimeout as _CaseTimeout
from .. import netlab, rawpeer, httpref, httpgen
from ..core import Result, digest
from hio.core.http import serving as hserving, clienting as hclienting

PID = "C16"
ENGINE = "http"
LEVEL = "fault_enumeration"
RULE = ("Server cases: a real hio http Server (WSGI echo app) or BareServer (default Steward) on the fake kernel with two raw "
        "connections: a byzantine client and a well-behaved sibling that issues keep-alive requests throughout. The byzantine "
        "bytes are grammar-aware mutations of valid requests (header line without ': ' or without colon, non-hex / signed / 0x / "
        "underscore / non-ASCII / empty / huge chunk sizes, bad chunk terminators, valid chunk extensions, absolute-form URLs with "
        "out-of-range or non-numeric port or broken IPv6 literal, lines > 65536 bytes, > 100 headers, bad request lines, unknown "
        "methods and versions, non-UTF-8 bodies and header bytes, bad Content-Length, Expect: 100-continue; digit-like and "
        "white-space-like non-ASCII bytes in numeric fields), byte-level mutations of grammar-generated valid messages, or random bytes, in seeded "
        "fragmentation, optionally truncated at any byte and followed by FIN or RST. Oracle: server.service() never raises, the "
        "sibling receives a correct response to every request within the drain bound, and a request whose request line is unusable "
        "beyond doubt is answered or its connection closed within 10 service rounds. Client cases: a real hio http Client with 1-3 "
        "queued requests against a scripted raw peer that answers with byzantine responses (bad status lines, header lines without "
        "colon, bad chunk sizes, 100-continue prefixes, 3xx without or with malformed Location, huge lines, non-UTF-8 event streams, "
        "truncation + FIN/RST, random bytes); a third of the clients are set up to reconnect on their own (tymeout 0.5, advancing tyme) and "
        "half of their responses are event streams, chunked or close-delimited, with hostile retry: / id: fields (hundreds of digits, negative, "
        "underscores, non-ASCII digits, NUL, invalid and valid non-latin-1 UTF-8, very long) that are cut by FIN or RST, so that the client "
        "comes back with what the stream told it. Absolute request URLs also come percent-encoded (%5B, %3A, %2F, %3F, %23). "
        "Oracle: client.service() never raises; responses that are malformed beyond doubt appear "
        "in client.responses with errored True. Non-trivial: the byzantine bytes reached the parser in >= 2 reads while the sibling "
        "(or a following request) was in flight. Distinct: digest of the byzantine bytes + fragmentation + end-of-connection event.")
COMPONENTS = dict(real=["hio.core.http.serving.Server/BareServer/Requestant/Responder/Steward", "hio.core.http.clienting.Client/Respondent/Requester",
                        "hio.core.http.httping parsers", "hio.core.tcp client/server"],
                  stub=["kernel sockets (FakeSocket)", "byzantine and sibling raw peers"], model=["hiosim/httpref.py (strict response parser)"])
ASSUMPTIONS = ["must-be-errored is demanded only for responses that violate the HTTP/1.1 grammar beyond doubt (status line, header line "
               "without any colon, chunk-size that is not 1*HEXDIG)"]
PROBES = ["dictable_client", "reconnecting_client", "server_wsgi", "server_bare", "client_mode", "truncated_fin", "truncated_rst", "sibling_completed", "errored_response_reported",
          "redirect_without_location", "chunk_size_mutation", "absolute_url_mutation", "long_line", "random_bytes", "valid_message_mutated"]
BOUNDS = dict(quick=dict(byz_connections=3), thorough=dict(byz_connections=4))
TIERS = dict(quick=dict(cases=40000, wall=60.0), thorough=dict(cases=1200000, wall=420.0))
SIM_TIME_UNIT = "net steps"

CHUNK_SIZES = [b"zz", b"-5", b"+5", b"0x10", b"1_0", b"\xff\xfe", b"", b" ", b"ffffffffffffffffffff", b"5 5", b"g", b"3;ext=1", b"3 ; a", b"-0",
               # bytes that decode (iso-8859-1) to characters Python's str/int treat as digits or white space
               b"\xb2", b"1\xb9", b"\xa03", b"3\x85", b"\xbd"]


def mutate_bytes(tape, data):
    """1-3 random byte-level edits (flip, insert, delete, duplicate a slice) of a valid message"""
    data = bytearray(data)
    for _ in range(1 + tape.draw("nmut", 3)):
        if not data:
            break
        i = tape.draw("mut_at", len(data))
        op = tape.draw("mut_op", 4)
        if op == 0:
            data[i] ^= 1 + tape.draw("mut_xor", 255)
        elif op == 1:
            data.insert(i, tape.pick("mut_ins", [0x0d, 0x0a, 0x3a, 0x20, 0x3b, 0x00, 0xff, 0x30, 0x2d, 0xb2, 0xb9, 0xa0, 0x85, 0x1c, 0x0b, 0x0c]))
        elif op == 2:
            del data[i]
        else:
            j = min(len(data), i + 1 + tape.draw("mut_len", 8))
            data[i:i] = data[i:j]
    return bytes(data)


def byz_request(tape):
    """returns (bytes, tag)"""
    k = tape.draw("byz_kind", 16)
    if k >= 14:
        valid, _d = httpgen.gen_request(tape)
        return mutate_bytes(tape, valid), "valid-mutated"
    if k == 0:
        return b"GET /a HTTP/1.1\r\n" + tape.pick("hdr", [b"Host:x", b"NoColonHere", b": novalue", b"A:", b"Host :x", b"X-A:b:c"]) + b"\r\n\r\n", "header-colon"
    if k == 1:
        size = tape.pick("csize", CHUNK_SIZES)
        return b"POST /c HTTP/1.1\r\nHost: x\r\nTransfer-Encoding: chunked\r\n\r\n" + size + b"\r\nabc\r\n0\r\n\r\n", "chunk-size"
    if k == 2:
        end = tape.pick("cend", [b"XX\r\n", b"\n", b"\r", b""])
        return b"POST /c HTTP/1.1\r\nHost: x\r\nTransfer-Encoding: chunked\r\n\r\n3\r\nabc" + end + b"0\r\n\r\n", "chunk-end"
    if k == 3:
        url = tape.pick("url", [b"http://h:99999/", b"http://h:abc/", b"http://[::1/", b"//[/", b"http://h:-1/", b"http://h:/x",
                                b"https://[v1.x]/", b"http://h:65536/y", b"http://h:8\xb2/", b"http://h:\xa080/", b"http://h\x85:80/",
                                b"http://%5Bab/x", b"//%5B/", b"http://h%3A99999/", b"http://%5B::1/%5D", b"/p%3Fq%23f", b"http://h:80%2Fx/"])
        return b"GET " + url + b" HTTP/1.1\r\nHost: h\r\n\r\n", "absolute-url"
    if k == 4:
        which = tape.draw("long_where", 3)
        n = tape.pick("long_n", [65530, 65537, 70000, 140000])
        if which == 0:
            return b"GET /" + b"a" * n + b" HTTP/1.1\r\nHost: x\r\n\r\n", "long-line"
        if which == 1:
            return b"GET / HTTP/1.1\r\nX-Long: " + b"b" * n + b"\r\n\r\n", "long-line"
        return b"".join([b"GET / HTTP/1.1\r\n"] + [b"X-%d: v\r\n" % i for i in range(tape.pick("nhdr", [99, 100, 101, 150]))] + [b"\r\n"]), "long-line"
    if k == 5:
        line = tape.pick("reqline", [b"FOO / HTTP/1.1", b"GET / HTTP/2.0", b"GET /", b"GET", b"", b" / HTTP/1.1", b"GET / HTTP/1.1 extra",
                                     b"GET  /  HTTP/1.1", b"get / http/1.1", b"GET / HTTP/1.", b"GET / FTP/1.1", b"\x00\x01\x02", b"GET /\xff HTTP/1.1"])
        definite = line in (b"GET /", b"GET", b" / HTTP/1.1", b"GET / FTP/1.1", b"\x00\x01\x02", b"get / http/1.1")
        return line + b"\r\nHost: x\r\n\r\n", "request-line-definite" if definite else "request-line"
    if k == 6:
        body = tape.pick("badbody", [b"\xff\xfe\xfd\xfc", b"\x80abc", b"{\"a\":", b"\xc3\x28", b"[" * 1500, b"{\"a\":" * 1200, b"9" * 5000])
        ct = tape.pick("ct", [b"", b"Content-Type: application/json\r\n", b"Content-Type: text/plain; charset=utf-8\r\n"])
        return b"POST /b HTTP/1.1\r\nHost: x\r\n" + ct + b"Content-Length: %d\r\n\r\n" % len(body) + body, "bad-body"
    if k == 7:
        cl = tape.pick("cl", [b"-1", b"abc", b"99999", b"1e3", b"", b"4, 4", b"+4", b"\xb2", b"\xa04", b"4\x85", b"\xb9\xb2"])
        return b"POST /l HTTP/1.1\r\nHost: x\r\nContent-Length: " + cl + b"\r\n\r\nbody", "content-length"
    if k == 8:
        return b"POST /e HTTP/1.1\r\nHost: x\r\nExpect: 100-continue\r\nContent-Length: 3\r\n\r\nabc", "expect-continue"
    if k == 9:
        n = 1 + tape.draw("rand_n", 200)
        return bytes(tape.draw("rand_b", 256) for _ in range(n)), "random"
    if k == 10:
        return b"GET /v HTTP/1.1\r\nHost: \xff\xfe\r\nX-\x80: 1\r\n\r\n", "header-bytes"
    if k == 11:
        return b"POST /c HTTP/1.1\r\nHost: x\r\nTransfer-Encoding: chunked\r\n\r\n3;a=1;b\r\nabc\r\n0;z\r\nX-T: 1\r\n\r\n", "chunk-ext-valid"
    if k == 12:
        return b"GET / HTTP/1.0\r\n\r\n", "http10"
    return b"OPTIONS * HTTP/1.1\r\nHost: x\r\n\r\n", "options-star"


def byz_response(tape, port2):
    """returns (bytes, tag, must_error)"""
    k = tape.draw("byz_kind", 16)
    if k >= 14:
        valid, _d = httpgen.gen_response(tape)
        return mutate_bytes(tape, valid), "valid-mutated", False
    if k == 0:
        h = tape.pick("hdr", [b"Content-Length:2", b"NoColonHere", b"A:", b"X :y"])
        return b"HTTP/1.1 200 OK\r\n" + h + b"\r\n\r\nok", "header-colon", h == b"NoColonHere"
    if k == 1:
        line = tape.pick("status", [b"FOO/1.1 200 OK", b"HTTP/1.1 abc OK", b"HTTP/1.1 99 x", b"HTTP/1.1 1000 x", b"HTTP/3.0 200 OK", b"", b"HTTP/1.1",
                                    b"200 OK", b"\x00\x01", b"HTTP/1.1 2\xb20 OK", b"HTTP/1.1 \xb2\xb3\xb9 OK", b"HTTP/1.1 20\xbd OK", b"HTTP/1.1 \xa0200 OK"])
        return line + b"\r\nContent-Length: 0\r\n\r\n", "status-line", line not in (b"", b"HTTP/1.1 \xa0200 OK")   # NBSP is white space to str.split(): lenient, not wrong
    if k == 2:
        size = tape.pick("csize", CHUNK_SIZES)
        bad = size not in (b"3;ext=1", b"3 ; a")
        return b"HTTP/1.1 200 OK\r\nTransfer-Encoding: chunked\r\n\r\n" + size + b"\r\nabc\r\n0\r\n\r\n", "chunk-size", bad and size not in (b"ffffffffffffffffffff",)
    if k == 3:
        st = tape.pick("rstatus", [b"301 Moved", b"302 Found", b"303 See Other", b"307 Temp"])
        loc = tape.pick("loc", [None, b"http://[::1/", b"http://h:99999/x", b"http://h:abc/", b"", b"/rel/path", b"//", b"http://127.0.0.1:%d/n" % port2,
                                b"\xff\xfe", b"http://", b"http://nonexistent.invalid/x", b"http://a..b/", b"http://" + b"x" * 70 + b".example/y", b"//http/z"])
        hdr = b"" if loc is None else b"Location: " + loc + b"\r\n"
        return b"HTTP/1.1 " + st + b"\r\n" + hdr + b"Content-Length: 0\r\n\r\n", "redirect" + ("-noloc" if loc is None else ""), False
    if k == 4:
        return b"HTTP/1.1 100 Continue\r\n\r\nHTTP/1.1 200 OK\r\nContent-Length: 2\r\n\r\nok", "continue", False
    if k == 5:
        n = tape.pick("long_n", [65537, 70000, 140000])
        return b"HTTP/1.1 200 " + b"r" * n + b"\r\nContent-Length: 0\r\n\r\n", "long-line", False
    if k == 6:
        return b"".join([b"HTTP/1.1 200 OK\r\n"] + [b"X-%d: v\r\n" % i for i in range(tape.pick("nhdr", [100, 101, 150]))] + [b"Content-Length: 0\r\n\r\n"]), "many-headers", False
    if k == 7:
        n = 1 + tape.draw("rand_n", 200)
        return bytes(tape.draw("rand_b", 256) for _ in range(n)) + b"\r\n\r\n", "random", False
    if k == 8:
        ev = tape.pick("sse", [b"data: \xff\xfe\n\n", b"\xff: x\n\n", b"id: \xc3\x28\ndata: x\n\n", b"retry: 1\xff\n\n"])
        return b"HTTP/1.1 200 OK\r\nContent-Type: text/event-stream\r\nTransfer-Encoding: chunked\r\n\r\n%x\r\n" % len(ev) + ev + b"\r\n0\r\n\r\n", "sse-bytes", False
    if k == 9:
        cl = tape.pick("cl", [b"-1", b"abc", b"+2", b"2, 2", b"\xb2", b"\xa02", b"2\x85"])
        return b"HTTP/1.1 200 OK\r\nContent-Length: " + cl + b"\r\nConnection: close\r\n\r\nok", "content-length", False
    if k == 10:
        bj = tape.pick("badjson", [b"\xff\xfe{]", b"[" * 1500, b"{\"a\":" * 1200, b"9" * 5000, b"[" * 1500 + b"]" * 1500])
        return b"HTTP/1.1 200 OK\r\nContent-Type: application/json\r\nContent-Length: %d\r\n\r\n" % len(bj) + bj, "bad-json", False
    if k == 11:
        end = tape.pick("cend", [b"XX\r\n", b"\n"])
        return b"HTTP/1.1 200 OK\r\nTransfer-Encoding: chunked\r\n\r\n3\r\nabc" + end + b"0\r\n\r\n", "chunk-end", True
    if k == 12:
        return b"HTTP/1.1 200 OK\r\nTransfer-Encoding: chunked\r\n\r\n3;a=1;b\r\nabc\r\n0\r\n\r\n", "chunk-ext-valid", False
    return b"HTTP/1.0 200 OK\r\n\r\nbody until close", "close-delimited", False


def echo_app(environ, start_response):
    body = environ["wsgi.input"].read()
    out = b"echo:" + environ["PATH_INFO"].encode("latin1") + b":" + body
    start_response("200 OK", [("Content-Type", "application/octet-stream"), ("Content-Length", str(len(out)))])
    return [out]


def fragments(tape, data):
    cuts = set()
    n = len(data)
    mode = tape.draw("frag_mode", 3)
    if mode == 0 or n < 2:
        return [data]
    for _ in range(1 + tape.draw("ncuts", 6)):
        cuts.add(1 + tape.draw("cut", n - 1))
    b = [0] + sorted(cuts) + [n]
    return [data[b[i]:b[i + 1]] for i in range(len(b) - 1)]


def server_case(tape, tier, res):
    bare = tape.flag("bare", 1, 3)
    nbyz = 1 + tape.draw("nbyz", 3 if tier == "quick" else 4)
    plan = []
    for _ in range(nbyz):
        data, tag = byz_request(tape)
        end = tape.pick("end", ["none", "none", "fin", "rst"])
        if end != "none" and tape.flag("truncate", 1, 2) and len(data) > 1:
            data = data[:1 + tape.draw("trunc_at", len(data) - 1)]
            tag += "+trunc"
        plan.append(dict(frags=fragments(tape, data), tag=tag, end=end))
    nsib = 2 + tape.draw("nsib", 3)
    cfg = dict(mode="server", bare=bare, plan=[dict(tag=p["tag"], end=p["end"], frags=[f[:80].decode("latin1") for f in p["frags"]][:8],
                                                     total=sum(len(f) for f in p["frags"])) for p in plan], nsib=nsib)
    raised = []
    # enough client ports that no byzantine connection comes from an address the server still holds a connection for
    # (a replaced connection keeps its old Requestant in hio's http Server: DESIGN 6.4, outside the listed properties)
    with netlab.Lab(tape, res, wirelog=False, rates=dict(short=tape.pick("r_short", [0, 4, 10])), ports=tuple(range(50001, 50033))) as lab:
        net = lab.net
        net.fresh_ports = True
        net.current_owner = "server"
        tymth = lambda: 0.0
        if bare:
            server = hserving.BareServer(port=lab.port, tymth=tymth, timeout=1000.0)
        else:
            server = hserving.Server(app=echo_app, port=lab.port, tymth=tymth, tymeout=1000.0)
        server.reopen()
        net.current_owner = None
        sib = rawpeer.RawClient(net, lab.port, "sibling")
        byz = None
        bi = 0          # index of current byzantine connection
        fi = 0          # next fragment
        sib_sent = 0
        sib_every = 1 + tape.draw("sib_every", 4)
        reads_while_inflight = 0
        ignored = []
        steps = 0
        maxsteps = 40 + 16 * sum(len(p["frags"]) for p in plan) + 10 * nsib
        while steps < maxsteps:
            steps += 1
            res.steps += 1
            # byzantine client
            if bi < len(plan):
                if byz is None:
                    byz = rawpeer.RawClient(net, lab.port, "byz%d" % bi)
                    fi = 0
                p = plan[bi]
                if fi < len(p["frags"]) and not byz.pending and tape.flag("send_now", 2, 3):
                    byz.queue(p["frags"][fi])
                    fi += 1
                    if sib_sent and len(sib_responses(sib)[0]) < sib_sent:
                        reads_while_inflight += 1
                byz.step()
                if fi >= len(p["frags"]) and not byz.pending:
                    if p["end"] == "fin":
                        byz.fin()
                        res.faults["truncated_fin" if "trunc" in p["tag"] else "peer_fin"] += 1
                        p["end"] = "done"
                    elif p["end"] == "rst":
                        byz.rst()
                        res.faults["truncated_rst" if "trunc" in p["tag"] else "peer_rst"] += 1
                        p["end"] = "done"
                    p.setdefault("linger", 0)
                    p["linger"] += 1
                    if byz.closed_seen or p["linger"] > 10:
                        if not byz.closed_seen:
                            if p["tag"] == "request-line-definite" and p["end"] == "none" and not byz.rx:
                                # the statement: malformed input closes, or is answered with an error on, that connection
                                ignored.append(p["frags"][0][:40])
                            byz.close()
                        byz = None
                        bi += 1
            # sibling
            if sib_sent < nsib and steps % sib_every == 0 and not sib.pending:
                body = b"s%d" % sib_sent
                sib.queue(b"POST /sib%d HTTP/1.1\r\nHost: x\r\nContent-Length: %d\r\n\r\n" % (sib_sent, len(body)) + body)
                sib_sent += 1
            sib.step()
            # server
            net.current_owner = "server"
            try:
                server.service()
            except _CaseTimeout:
                raise
            except BaseException as ex:
                raised.append((type(ex).__name__, str(ex)[:150], plan[min(bi, len(plan) - 1)]["tag"]))
                net.current_owner = None
                break
            net.current_owner = None
            net.step()
            if bi >= len(plan) and sib_sent >= nsib and len(sib_responses(sib)[0]) >= nsib:
                break
        # drain for the sibling
        if not raised:
            for _ in range(60):
                if sib_sent < nsib and not sib.pending:
                    body = b"s%d" % sib_sent
                    sib.queue(b"POST /sib%d HTTP/1.1\r\nHost: x\r\nContent-Length: %d\r\n\r\n" % (sib_sent, len(body)) + body)
                    sib_sent += 1
                sib.step()
                net.current_owner = "server"
                try:
                    server.service()
                except _CaseTimeout:
                    raise
                except BaseException as ex:
                    raised.append((type(ex).__name__, str(ex)[:150], "drain"))
                    break
                finally:
                    net.current_owner = None
                net.step()
                res.steps += 1
                if sib_sent >= nsib and len(sib_responses(sib)[0]) >= nsib:
                    break
        if raised:
            res.violate("server-service-raised", "%s.service() raised %s: %s while handling byzantine request kind %s" % (
                "BareServer" if bare else "Server", raised[0][0], raised[0][1], raised[0][2]))
        else:
            resp, err = sib_responses(sib)
            res.comparisons += 1
            ok = len(resp) == nsib and err is None
            if ok:
                for i, r in enumerate(resp):
                    if r["status"] != 200:
                        ok = False
                    if not bare and r["body"] != b"echo:/sib%d:s%d" % (i, i):
                        ok = False
                    if bare and (b"/sib%d" % i) not in r["body"]:
                        ok = False
            if ignored:
                res.violate("malformed-request-ignored", "a request with the unusable request line %r was neither answered nor was its "
                            "connection closed within 10 service rounds" % (bytes(ignored[0]),))
            elif not ok:
                res.violate("sibling-not-served", "the well-behaved connection got %d of %d correct responses (parse error %s, closed %s); "
                            "byzantine kinds %s" % (len(resp), nsib, err, sib.closed_seen, [p["tag"] for p in plan]))
            else:
                res.probes["sibling_completed"] += 1
        events = list(net.events)
        sim_now = net.now
    res.probes["server_bare" if bare else "server_wsgi"] += 1
    for p in plan:
        t = p["tag"]
        if t.startswith("chunk-size"):
            res.probes["chunk_size_mutation"] += 1
        if t.startswith("absolute-url"):
            res.probes["absolute_url_mutation"] += 1
        if t.startswith("long-line"):
            res.probes["long_line"] += 1
        if t.startswith("random"):
            res.probes["random_bytes"] += 1
        if t.startswith("valid-mutated"):
            res.probes["valid_message_mutated"] += 1
    for k in ("truncated_fin", "truncated_rst"):
        if res.faults.get(k):
            res.probes[k] += 1
    res.nontrivial = reads_while_inflight >= 1 and any(len(p["frags"]) >= 2 for p in plan)
    return cfg, events, sim_now, raised


def sib_responses(sib):
    resp, _pos, err = httpref.parse_all(sib.rx, eof=sib.closed_seen)
    return resp, err


SSE_HOSTILE = [b"retry: " + b"9" * 400 + b"\n\n", b"id: \xe2\x98\x83\ndata: x\n\n", b"retry: -5\ndata: y\n\n", b"id: a\x00b\ndata: z\n\n",
               b"id: \xff\xfe\nretry: 1_0\ndata: w\n\n", b"retry: \xd9\xa1\xd9\xa2\n\n", b"id: 7\nretry: 250\ndata: ok\n\n", b": just a comment\n\n",
               b"id: " + b"i" * 300 + b"\ndata: long id\n\n", b"retry: 1e3\nid:\ndata: empty id\n\n",
               b"data: " + b"9" * 4400 + b"\n\n", b"data: " + b"[" * 1500 + b"\n\n", b"data: {\"a\": 1e999999}\n\n", b"data: {\"a\":\n\n"]


def client_case(tape, tier, res):
    nreq = 1 + tape.draw("nreq", 3)
    plan = []
    port2 = 56099
    # a client set up to reconnect on its own (the way event stream consumers are): after a stream is cut it comes back when
    # its retry period is over, using what the stream told it (retry:, id:) - hostile values included
    reconnecting = tape.flag("reconnecting_client", 1, 3)
    for _ in range(nreq):
        if reconnecting and tape.flag("sse_stream", 1, 2):
            evs = b"".join(SSE_HOSTILE[tape.draw("sse_ev", len(SSE_HOSTILE))] for _ in range(1 + tape.draw("n_sse_ev", 3)))
            if tape.flag("sse_chunked", 1, 2):
                data = b"HTTP/1.1 200 OK\r\nContent-Type: text/event-stream\r\nTransfer-Encoding: chunked\r\n\r\n%x\r\n" % len(evs) + evs + b"\r\n"
            else:
                data = b"HTTP/1.1 200 OK\r\nContent-Type: text/event-stream\r\n\r\n" + evs
            plan.append(dict(frags=fragments(tape, data), tag="sse-stream-cut", end=tape.pick("sse_end", ["fin", "fin", "rst"]), must=False))
            continue
        data, tag, must = byz_response(tape, port2)
        end = tape.pick("end", ["none", "none", "fin", "rst"])
        if end != "none" and tape.flag("truncate", 1, 3) and len(data) > 1:
            data = data[:1 + tape.draw("trunc_at", len(data) - 1)]
            tag += "+trunc"
            must = False
        plan.append(dict(frags=fragments(tape, data), tag=tag, end=end, must=must))
    cfg = dict(mode="client", reconnecting=reconnecting, plan=[dict(tag=p["tag"], end=p["end"], must=p["must"], frags=[f[:80].decode("latin1") for f in p["frags"]][:8]) for p in plan])
    raised = []
    with netlab.Lab(tape, res, wirelog=False, rates=dict(short=tape.pick("r_short", [0, 4, 10]))) as lab:
        net = lab.net
        srv = rawpeer.RawServer(net, lab.port)
        net.current_owner = "client0"
        tyme = [0.0]
        ckwa = dict(reconnectable=True, tymeout=0.5) if reconnecting else {}
        if tape.flag("dictable_client", 1, 3):
            ckwa["dictable"] = True      # bodies and event data are also tried as JSON
            res.probes["dictable_client"] += 1
        client = hclienting.Client(hostname="127.0.0.1", port=lab.port, tymth=lambda: tyme[0], **ckwa)
        client.reopen()
        net.current_owner = None
        for i in range(nreq):
            client.request(method="GET", path="/r%d" % i)
        served = [0]
        if reconnecting:
            res.probes["reconnecting_client"] += 1

        def behave(c):
            st = c["state"]
            # answer each complete request head on this connection with the next planned response
            while b"\r\n\r\n" in c["rx"] and served[0] < len(plan):
                i = c["rx"].index(b"\r\n\r\n")
                del c["rx"][:i + 4]
                p = plan[served[0]]
                served[0] += 1
                st.setdefault("queue", []).extend(p["frags"])
                st["end"] = p["end"]
            q = st.get("queue")
            if q and not c["out"] and (draining[0] or tape.flag("send_now", 2, 3)):
                c["out"].extend(q.pop(0))
            if served[0] >= 1 and not q and not c["out"] and st.get("first_sent") is None:
                st["first_sent"] = True
                first_sent[0] = True
            if q is not None and not q and not c["out"] and st.get("end") in ("fin", "rst"):
                if st["end"] == "fin":
                    c["fin"] = True
                else:
                    c["rst"] = True
                st["end"] = "done"
        maxsteps = 60 + 12 * sum(len(p["frags"]) for p in plan)
        draining = [False]
        first_sent = [False]    # every fragment of the first planned response was handed to the kernel
        for steps in range(maxsteps + 40):
            if steps == maxsteps:
                draining[0] = True     # bounded liveness: from here on the peer sends whatever it still holds at once
            res.steps += 1
            if reconnecting:
                tyme[0] += 0.125
            net.current_owner = "client0"
            try:
                client.service()
            except _CaseTimeout:
                raise
            except BaseException as ex:
                raised.append((type(ex).__name__, str(ex)[:150], plan[min(max(served[0] - 1, 0), len(plan) - 1)]["tag"]))
                net.current_owner = None
                break
            net.current_owner = None
            srv.step(behave)
            net.step()
        if raised:
            res.violate("client-service-raised", "Client.service() raised %s: %s while handling byzantine response kind %s" % raised[0])
        else:
            # first planned response that must be reported as errored
            resp = list(client.responses)
            res.comparisons += 1
            if plan and plan[0]["must"] and served[0] >= 1 and first_sent[0]:
                if not resp:
                    res.violate("client-error-not-reported", "response kind %s is malformed but nothing was put into client.responses" % plan[0]["tag"])
                elif not resp[0]["errored"]:
                    res.violate("client-error-not-reported", "response kind %s is malformed but client.responses[0].errored is %r (status %r body %r)" % (
                        plan[0]["tag"], resp[0]["errored"], resp[0]["status"], bytes(resp[0]["body"])[:30]))
                else:
                    res.probes["errored_response_reported"] += 1
        events = list(net.events)
        sim_now = net.now
    res.probes["client_mode"] += 1
    for p in plan:
        if p["tag"].startswith("redirect-noloc"):
            res.probes["redirect_without_location"] += 1
        if p["tag"].startswith("chunk-size"):
            res.probes["chunk_size_mutation"] += 1
        if p["tag"].startswith("long-line"):
            res.probes["long_line"] += 1
        if p["tag"].startswith("random"):
            res.probes["random_bytes"] += 1
        if p["tag"].startswith("valid-mutated"):
            res.probes["valid_message_mutated"] += 1
    res.nontrivial = nreq >= 2 and any(len(p["frags"]) >= 2 for p in plan)
    return cfg, events, sim_now, raised


def run_case(tape, tier):
    res = Result()
    if tape.flag("client_mode", 2, 5):
        cfg, events, sim_now, raised = client_case(tape, tier, res)
    else:
        cfg, events, sim_now, raised = server_case(tape, tier, res)
    res.scenario = lambda: dict(config=cfg, raised=raised, faults=dict(res.faults))
    res.scen_digest = digest(cfg)
    res.event_digest = digest([list(map(str, e)) for e in events] + [raised])
    res.sim_time = float(sim_now)
    res.faultfree = False
    return res
