"""
C20  Memos survive segmentation into grams and any delivery order.
"""
from .. import gram as gr
from ..core import Result, digest
from ..models import memo as memomodel
from hio.core.udp import peermemoing
from hio.core.memo import memoing

PID = "C20"
ENGINE = "gram"
LEVEL = "exploration"
RULE = ("Each case creates 1-3 real sender PeerMemoers and one receiver on the fake datagram kernel (seeded memo ids through the "
        "uuid seam, real Ed25519 keys). Per sender: one of the four zero-gram codes (plain/auth x sure), base64 or binary headers, "
        "a gram size from the legal minimum to a few hundred bytes; 1-3 memos each of 1-400 unicode characters (multi-byte, so grams "
        "split inside characters). All grams the kernel accepted are then delivered to the receiver in a seeded order: full "
        "permutation across memos and senders, duplicates (before and after a memo completed), service points (serviceAllRx) "
        "after every k deliveries. Oracle: a memo never appears before each of its grams was delivered at least once; after "
        "everything was delivered the delivered multiset of (text, source address, signer id) equals the sent one, each exactly "
        "once. Deviations are compared with the reference model under exactly the recorded quirks F23 / F30. Non-trivial: >= 2 memos "
        "with >= 3 grams each whose grams were interleaved, and >= 1 duplicate. Distinct: digest of memos + delivery schedule.")
COMPONENTS = dict(real=["hio.core.memo.memoing.Memoer (rend, pick, verify, fuse, rx services)", "hio.core.udp.peermemoing.PeerMemoer", "hio.core.udp.udping.Peer", "pysodium Ed25519"],
                  stub=["datagram kernel (FakeDgram) and the delivery schedule", "uuid source"], model=["hiosim/models/memo.py"])
ASSUMPTIONS = ["no loss in this check: every gram is delivered at least once (loss is C21/C22 territory)"]
PROBES = ["layout_switched_after_construction", "signed_memo", "binary_headers", "zeroth_gram_delivered_last", "duplicate_after_completion", "interleaved_senders", "min_gram_size", "multibyte_split"]
BOUNDS = dict(quick=dict(senders=3, memos=6, chars=400), thorough=dict(senders=3, memos=9, chars=400))
TIERS = dict(quick=dict(cases=15000, wall=60.0), thorough=dict(cases=600000, wall=420.0))
SIM_TIME_UNIT = "deliveries"

ALPHABETS = ["abcdefghij", "héllo wörld ", "中文字符测试", "😀🎉x", "0123456789 the quick brown fox ", "\n\t {}[]\"'"]
CODES = ["bAAA", "bAAC", "bAAE", "bAAG"]


def run_case(tape, tier):
    res = Result()
    nsend = 1 + tape.weighted("nsenders", [3, 2, 1])
    all_signed = tape.flag("all_signed", 1, 3)
    net = gr.DgramNet(tape, res)
    memos = {}      # memo_id -> dict(text, src, vid, count, signed, grams=[wire index])
    cfg = []
    with gr.installed(net, uuid_seed=tape.draw("uuid_seed", 1 << 16)):
        recv_keep = {}
        senders = []
        for s in range(nsend):
            code = tape.pick("code", ["bAAC", "bAAG"] if all_signed else CODES)
            signed = code in ("bAAC", "bAAG")
            curt = tape.flag("curt", 1, 2)
            vcode = tape.pick("vid_code", ["B", "B", "D"])
            vid, keyage = gr.make_identity(b"sender%d/%d" % (s, tape.draw("keyseed", 1000)), code=vcode)
            bz, nz, mz, vz, az = memoing.Memoer.Sizes[code]
            oz = bz + nz + mz + vz + az
            if curt:
                oz = 3 * oz // 4
            size = oz + tape.pick("size_extra", [1, 2, 3, 7, 16, 40, 100, 300])
            late = tape.flag("late_config", 1, 4)
            if late:
                # built with the default layout and a requested gram size that may be below the final layout's minimum, then
                # switched to the final code / header encoding through the property setters (which must re-clamp the size)
                req = tape.pick("late_size", [1, 30, size, size])
                pm = peermemoing.PeerMemoer(name="s%d" % s, ha=("127.0.0.1", 55010 + s), size=req,
                                            vid=vid if signed else None, keep={vid: keyage} if signed else None)
                if tape.flag("late_order", 1, 2):
                    pm.curt = curt
                    pm.code = code
                else:
                    pm.code = code
                    pm.curt = curt
                size = max(req, oz + 1)
                res.probes["layout_switched_after_construction"] += 1
            else:
                pm = peermemoing.PeerMemoer(name="s%d" % s, ha=("127.0.0.1", 55010 + s), code=code, curt=curt, size=size,
                                            vid=vid if signed else None, keep={vid: keyage} if signed else None)
            assert pm.reopen()
            recv_keep[vid] = keyage
            senders.append(dict(pm=pm, code=code, curt=curt, size=size, vid=vid if signed else None, signed=signed))
            cfg.append(dict(code=code, curt=curt, size=size, min_extra=size - oz, vid_code=vcode))
        authic = all(s["signed"] for s in senders) and tape.flag("authic", 2, 3)
        rx = peermemoing.PeerMemoer(name="rx", ha=("127.0.0.1", 55001), authic=authic, keep=recv_keep)
        assert rx.reopen()
        maxm = 3 if tier == "thorough" else 2
        mid_counter = 0
        for si, s in enumerate(senders):
            for _ in range(1 + tape.draw("nmemos", maxm)):
                n = 1 + tape.draw("memo_len", tape.pick("memo_len_max", [8, 40, 400]))
                alpha = tape.pick("alphabet", ALPHABETS)
                text = "".join(alpha[tape.draw("ch", len(alpha))] for _ in range(n))
                before = len(net.wire)
                s["pm"].memoit(text, rx.ha, s["vid"])
                try:
                    s["pm"].serviceAllTx()
                except Exception as ex:
                    noz = sum(memoing.Memoer.Sizes[memoing.Memoer.Pairs[s["code"]]])
                    if s["curt"] and s["size"] - noz < 1 and type(ex).__name__ in ("MemoerError", "ZeroDivisionError"):
                        res.finding("F34", "binary headers, gram size %d (legal minimum + %d): %s" % (s["size"], cfg[si]["min_extra"], str(ex)[:80]))
                    else:
                        res.violate("tx-raised", "sending a %d character memo with code %s, %s headers and gram size %d (legal minimum + %d) raised %s: %s" % (
                            len(text), s["code"], "binary" if s["curt"] else "base64", s["size"], cfg[si]["min_extra"], type(ex).__name__, str(ex)[:100]))
                    s["pm"].close()
                    rx.close()
                    for t in senders:
                        t["pm"].close()
                    res.scen_digest = digest(dict(c=cfg, t=text))
                    res.event_digest = res.scen_digest
                    res.scenario = dict(senders=cfg, memo=text)
                    return res
                after = len(net.wire)
                if after == before:
                    # a memo was queued and the transmit side serviced with an always-accepting transport: it must be on the wire
                    res.violate("memo-not-transmitted", "a %d character memo was queued (code %s, gram size %d) but serviceAllTx put no gram on the wire" % (
                        len(text), s["code"], s["size"]))
                    rx.close()
                    for t in senders:
                        t["pm"].close()
                    res.scen_digest = digest(dict(c=cfg, t=text))
                    res.event_digest = res.scen_digest
                    res.scenario = dict(senders=cfg, memo=text)
                    return res
                memos[mid_counter] = dict(text=text, src=s["pm"].ha, vid=s["vid"], count=after - before, signed=s["signed"],
                                          wire=list(range(before, after)), sender=si)
                mid_counter += 1
        # ---- delivery schedule
        pool = []
        for mid, m in memos.items():
            for gn, wi in enumerate(m["wire"]):
                pool.append((mid, gn, wi))
        order = []
        rest = list(pool)
        mode = tape.pick("order_mode", ["shuffle", "reverse", "in-order", "shuffle"])
        if mode == "reverse":
            rest.reverse()
        while rest:
            i = tape.draw("next", len(rest)) if mode == "shuffle" else 0
            g = rest.pop(i)
            order.append(g)
            if tape.flag("dup_now", 1, 6):
                order.append(g)
        # late duplicates (possibly after the memo completed)
        for _ in range(tape.geometric("late_dups", 6, 2, 3)):
            order.append(pool[tape.draw("late_dup", len(pool))])
        ndup = len(order) - len(pool)
        if ndup > 0:
            res.faults["datagram_duplicated"] += ndup
        inorder = [g for g in pool]
        seen_once = []
        for g in order:
            if g not in seen_once:
                seen_once.append(g)
        if seen_once != inorder:
            res.faults["datagrams_reordered"] += sum(1 for a, b in zip(seen_once, inorder) if a != b)
        every = 1 + tape.draw("service_every", 6)
        deliveries = []
        delivered_once = {mid: set() for mid in memos}
        inbox_seen = 0
        early = None
        err = None
        appear = []
        try:
            for k, (mid, gn, wi) in enumerate(order):
                src, dst, data = net.wire[wi]
                net.deliver(dst[1], data, src)
                deliveries.append(("gram", mid, gn))
                delivered_once[mid].add(gn)
                res.steps += 1
                if (k + 1) % every == 0 or k == len(order) - 1:
                    rx.serviceAllRx()
                    deliveries.append(("service",))
                    while inbox_seen < len(rx.inbox):
                        text, srcaddr, vid = rx.inbox[inbox_seen]
                        inbox_seen += 1
                        appear.append((text, tuple(srcaddr) if srcaddr else None, vid))
                        # which memo is it?  never before all its grams were delivered
                        cands = [m_id for m_id, m in memos.items() if m["text"] == text and tuple(m["src"]) == tuple(srcaddr or ()) and m["vid"] == vid]
                        if not cands:
                            early = early or ("memo-not-sent", "receiver delivered a memo that was never sent: %r from %s vid %s" % (text[:40], srcaddr, vid))
                        elif not any(len(delivered_once[c]) == memos[c]["count"] for c in cands):
                            early = early or ("memo-before-complete", "memo %s delivered before all of its %d grams had been delivered (%s so far)" % (
                                cands[0], memos[cands[0]]["count"], sorted(delivered_once[cands[0]])))
            rx.serviceAllRx()
        except Exception as ex:
            err = "%s: %s" % (type(ex).__name__, str(ex)[:120])
        for s in senders:
            s["pm"].close()
        rx.close()
    got = sorted(appear, key=repr)
    want_ids = list(memos)
    want = sorted(((memos[i]["text"], tuple(memos[i]["src"]), memos[i]["vid"]) for i in want_ids), key=repr)
    res.comparisons = len(want) + len(order)
    res.sim_time = float(len(order))
    res.scenario = lambda: dict(senders=cfg, authic=authic, memos={str(k): dict(chars=len(v["text"]), grams=v["count"], signed=v["signed"], sender=v["sender"])
                                                                    for k, v in memos.items()},
                                order=[(m, g) for m, g, _w in order][:200], service_every=every)
    res.scen_digest = digest(dict(c=cfg, m={str(k): (v["text"], v["count"]) for k, v in memos.items()}, o=[(m, g) for m, g, _ in order], e=every))
    res.event_digest = digest(dict(got=got, err=err))
    if err:
        res.violate("rx-raised", "serviceAllRx raised %s" % err)
    elif early:
        res.violate(early[0], early[1])
    elif got != want:
        # classify against the model with recorded quirks
        def as_tuples(ids):
            return sorted(((memos[i]["text"], tuple(memos[i]["src"]), memos[i]["vid"]) for i in ids), key=repr)
        mm = {k: dict(count=v["count"], signed=v["signed"]) for k, v in memos.items()}
        ideal = as_tuples(memomodel.simulate(deliveries, mm))
        msg = "delivered %d memo(s), sent %d: missing %s, extra %s" % (
            len(got), len(want), [t[0][:20] for t in want if got.count(t) < want.count(t)][:3], [t[0][:20] for t in got if got.count(t) > want.count(t)][:3])
        if ideal != want:
            res.violate("model-disagrees", "reference model itself does not deliver every memo once (harness): %s" % msg)
        else:
            f23 = as_tuples(memomodel.simulate(deliveries, mm, drop_signed_before_zeroth=True))
            f30 = as_tuples(memomodel.simulate(deliveries, mm, refuse_after_fuse=True))
            both = as_tuples(memomodel.simulate(deliveries, mm, drop_signed_before_zeroth=True, refuse_after_fuse=True))
            if got == f23:
                res.finding("F23", msg)
            elif got == f30:
                res.finding("F30", msg)
            elif got == both:
                res.finding("F23", msg)
                res.finding("F30", msg)
            else:
                res.violate("memo-delivery", msg)
    # probes
    if any(m["signed"] for m in memos.values()):
        res.probes["signed_memo"] += 1
    if any(c["curt"] for c in cfg):
        res.probes["binary_headers"] += 1
    first = {}
    for k, (mid, gn, _w) in enumerate(order):
        first.setdefault((mid, gn), k)
    if any(memos[mid]["count"] > 1 and first[(mid, 0)] > max(first[(mid, g)] for g in range(1, memos[mid]["count"])) for mid in memos):
        res.probes["zeroth_gram_delivered_last"] += 1
    comp = {}
    seen = {mid: set() for mid in memos}
    for k, (mid, gn, _w) in enumerate(order):
        seen[mid].add(gn)
        if len(seen[mid]) == memos[mid]["count"] and mid not in comp:
            comp[mid] = k
    if any(k > comp.get(mid, 1 << 30) for k, (mid, gn, _w) in enumerate(order)):
        res.probes["duplicate_after_completion"] += 1
    if nsend > 1:
        res.probes["interleaved_senders"] += 1
    if any(c["min_extra"] <= 2 for c in cfg):
        res.probes["min_gram_size"] += 1
    if any(any(ord(ch) > 127 for ch in m["text"]) and m["count"] > 1 for m in memos.values()):
        res.probes["multibyte_split"] += 1
    big = [mid for mid, m in memos.items() if m["count"] >= 3]
    res.nontrivial = len(big) >= 2 and len(order) > len(pool) and mode in ("shuffle", "reverse")
    return res
