"""
C13  HTTP message parsing does not depend on how bytes are fragmented.
"""
from .. import httpgen
from ..core import Result, digest
from hio.core.http import serving as hserving, clienting as hclienting

PID = "C13"
ENGINE = "http"
LEVEL = "exploration"
RULE = ("Each case generates, from a grammar, a pipelined sequence of 1-4 well-formed HTTP/1.x requests (for the server's "
        "Requestant) or responses (for the client's Respondent): Content-Length, chunked (size formats, extensions, trailers) "
        "and close-delimited bodies over all byte values (so bodies contain CR, LF, CRLF and things that look like chunk or "
        "status lines), 100-continue prefixes, 204/304, line endings CRLF, bare LF or mixed per line. The byte string is parsed "
        "twice by hio's real incremental parser on a shared bytearray: fed whole, and fed in a seeded partition (1-byte reads, "
        "cuts forced between CR and LF, inside the chunk-size line, at the head/body boundary), parse() after every feed. "
        "Oracle: identical results for every message: start-line fields, header items in order, body, chunk parms, trailers, "
        "persistence decision, errored/error, and the bytes left unconsumed. Non-trivial: >= 1 cut inside a line terminator "
        "or within 3 bytes of the head/body boundary, and the whole-feed parse succeeded. Distinct: digest of (bytes, cuts).")
COMPONENTS = dict(real=["hio.core.http.httping.parseLine/parseLeader/parseChunk/Parsent", "hio.core.http.serving.Requestant",
                        "hio.core.http.clienting.Respondent"], stub=["the reads (seeded partition of the byte string)"])
ASSUMPTIONS = ["messages are well-formed by construction; chunk framing lines use CRLF (the only form hio's chunk parser accepts)"]
PROBES = ["bare_lf_message", "mixed_eol_message", "chunked_with_trailers", "close_delimited", "pipelined", "cut_inside_crlf",
          "body_contains_crlf", "continue_prefix", "bytewise"]
BOUNDS = dict(quick=dict(messages=4, body=60), thorough=dict(messages=4, body=60))
TIERS = dict(quick=dict(cases=100000, wall=60.0), thorough=dict(cases=4000000, wall=420.0))
SIM_TIME_UNIT = "reads"


class DummyRemoter:
    tymeout = 1.0


def snapshot(p, kind):
    hs = list(p.headers.items()) if p.headers is not None else None
    common = dict(version=p.version, headers=hs, body=bytes(p.body), parms=dict(p.parms) if p.parms else p.parms,
                  trails=list(p.trails.items()) if p.trails else p.trails, persisted=p.persisted, errored=p.errored,
                  error=p.error, ended=p.ended, length=p.length, chunked=p.chunked, jsoned=p.jsoned)
    if kind == "request":
        common.update(method=p.method, url=p.url, path=p.path, query=p.query, fragment=p.fragment)
    else:
        common.update(status=p.status, reason=p.reason, redirectant=p.redirectant)
    return common


def parse_stream(kind, data, cuts, nmsgs, close_at_end, dropped_before=False):
    """feed data in fragments cut at `cuts`; returns (list of per-message snapshots, leftover bytes, exception)"""
    buf = bytearray()
    if kind == "request":
        p = hserving.Requestant(msg=buf, remoter=DummyRemoter())
    else:
        p = hclienting.Respondent(msg=buf, method="GET")
    if dropped_before:
        # history: this parser already handled an ordinary exchange, was set up for the next one, and was told that the (idle)
        # connection went away, as Client.service tells it on every pass while the connector is cut off; the connection is
        # up again now
        buf.extend(b"HTTP/1.1 200 OK\r\nContent-Length: 2\r\n\r\nok" if kind == "response" else b"GET /before HTTP/1.1\r\nHost: x\r\n\r\n")
        p.parse()
        assert p.ended and not p.errored and not buf, "history message did not parse"
        p.makeParser()
        p.close()
    results = []
    bounds = [0] + list(cuts) + [len(data)]
    exc = None
    done = False
    try:
        for i in range(len(bounds) - 1):
            buf.extend(data[bounds[i]:bounds[i + 1]])
            last = (i == len(bounds) - 2)
            # parse until no progress (the service loops parse one message per round; a cut-off connection
            # is signalled with close() before every round, as Client.service does)
            for _round in range(nmsgs + 3):
                if done:
                    break
                if p.parser is None:
                    if len(results) >= nmsgs or not buf:
                        break
                    p.makeParser()
                if last and close_at_end:
                    p.close()
                before = len(buf)
                p.parse()
                if p.parser is None and p.ended:
                    results.append(snapshot(p, kind))
                    if p.errored or not p.persisted:
                        done = True
                elif len(buf) == before and not (last and close_at_end):
                    break
    except Exception as ex:      # an escaping exception is also a "result" (C16 is about whether it may escape)
        exc = "%s: %s" % (type(ex).__name__, str(ex)[:80])
        buf = bytearray(b"<exception>")
    return results, bytes(buf), exc


def run_case(tape, tier):
    res = Result()
    kind = tape.pick("kind", ["request", "response"])
    nmsgs = 1 + tape.geometric("nmsgs", 3, 1, 2)
    msgs, descs = [], []
    close_needed = False
    for i in range(nmsgs):
        if kind == "request":
            b, d = httpgen.gen_request(tape)
        else:
            b, d = httpgen.gen_response(tape, allow_close_delimited=True)
            if d["framing"] == "close":
                close_needed = True
        msgs.append(b)
        descs.append(d)
        if d["framing"] == "close":
            break
    limit_cut = None
    if tape.flag("line_at_the_limit", 1, 400) and msgs:
        # a header line exactly as long as the parser allows (65536 bytes) or one short of it, ended by CRLF, with a read boundary
        # between its CR and its LF: legal whole, so legal in any split
        b0 = msgs[0]
        k = b0.find(b"\r\n")
        n = tape.pick("limit_len", [65536, 65535, 65536])
        if kind == "response" and tape.flag("limit_start_line", 1, 2):
            # the status line itself (its reason phrase padded), ended by whatever ends it, with the read boundary right before the LF
            kl = b0.find(b"\n")
            if kl > 0:
                end = kl - 1 if b0[kl - 1:kl] == b"\r" else kl      # where the line's own bytes end
                pad = n - end
                if pad > 0 and b"\r" not in b0[:end]:
                    msgs[0] = b0[:end] + b"k" * pad + b0[end:]
                    limit_cut = kl + pad
                    res.faults["line_at_the_size_limit"] += 1
        elif k >= 0 and b"\n" not in b0[:k]:
            line = b"X-Limit: " + b"a" * (n - 9)
            msgs[0] = b0[:k + 2] + line + b"\r\n" + b0[k + 2:]
            limit_cut = k + 2 + len(line) + 1
            res.faults["line_at_the_size_limit"] += 1
    data = b"".join(msgs)
    cuts = httpgen.partition(tape, data, httpgen.interesting_points(data))
    if limit_cut is not None:
        cuts = sorted(set(list(cuts) + [limit_cut]))
    dropped_before = kind == "response" and tape.flag("dropped_while_idle_before", 1, 4)
    if dropped_before:
        res.faults["connection_dropped_while_idle_before"] += 1
    whole, left_w, exc_w = parse_stream(kind, data, [], len(msgs), close_needed, dropped_before)
    frag, left_f, exc_f = parse_stream(kind, data, cuts, len(msgs), close_needed, dropped_before)
    res.comparisons = len(whole) + 1
    res.steps = len(cuts) + 1
    res.sim_time = float(len(cuts) + 1)
    res.scenario = lambda: dict(kind=kind, dropped_before=dropped_before, messages=descs, data=data.decode("latin1"), cuts=cuts)
    res.scen_digest = digest(dict(d=data.decode("latin1"), c=cuts, k=kind, h=dropped_before))
    res.event_digest = digest(dict(w=repr(whole), f=repr(frag), lw=left_w.decode("latin1"), lf=left_f.decode("latin1")))
    if exc_w != exc_f:
        res.violate("fragmentation-exception", "whole feed: %s; fragmented feed (cuts %s): %s" % (exc_w, cuts[:12], exc_f))
    elif len(whole) != len(frag):
        res.violate("fragmentation-message-count", "whole feed parsed %d message(s), fragmented feed (cuts %s) parsed %d; "
                    "first whole result errored=%s" % (len(whole), cuts[:12], len(frag), whole[0]["errored"] if whole else None))
    else:
        for i, (a, b) in enumerate(zip(whole, frag)):
            if a != b:
                keys = [k for k in a if a[k] != b[k]]
                res.violate("fragmentation-result", "message %d differs in %s: whole %r fragmented %r (cuts %s)" % (
                    i, keys, {k: a[k] for k in keys}, {k: b[k] for k in keys}, cuts[:12]))
                break
        else:
            if left_w != left_f:
                res.violate("fragmentation-leftover", "unconsumed bytes differ: whole %r fragmented %r" % (left_w[:40], left_f[:40]))
    # probes
    styles = set(d["eol"] for d in descs)
    if "lf" in styles:
        res.probes["bare_lf_message"] += 1
    if "mixed" in styles:
        res.probes["mixed_eol_message"] += 1
    if any(d.get("trailers") for d in descs):
        res.probes["chunked_with_trailers"] += 1
    if close_needed:
        res.probes["close_delimited"] += 1
    if len(msgs) > 1:
        res.probes["pipelined"] += 1
    if any(d.get("body_has_eol") for d in descs):
        res.probes["body_contains_crlf"] += 1
    if exc_w is not None:
        res.probes["parse_raised_same_both_ways"] += 1
    inside = [c for c in cuts if data[c - 1:c + 1] == b"\r\n"]
    res.faults["short_read"] += len(cuts)
    res.faults["short_read_between_cr_and_lf"] += len(inside)
    if inside:
        res.probes["cut_inside_crlf"] += 1
    if any(d.get("n100") for d in descs):
        res.probes["continue_prefix"] += 1
    if len(cuts) == len(data) - 1 and len(data) > 2:
        res.probes["bytewise"] += 1
    hb = data.find(b"\r\n\r\n")
    near = [c for c in cuts if hb >= 0 and abs(c - (hb + 4)) <= 3]
    ok_whole = bool(whole) and not whole[0]["errored"] and exc_w is None
    res.nontrivial = bool((inside or near) and ok_whole)
    return res
