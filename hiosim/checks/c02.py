"""
C02  Forced exits are nested: reverse enter order, children before parent.
"""
from .. import sched, sched_oracles
from ..core import Result, digest
from . import c01

PID = "C02"
LEVEL = "fault_enumeration"
RULE = ("Same program space as C01 (doer forests with scripted faults under hio's real Doist). Oracle per scheduler "
        "(Doist or DoDoer) that stops with children still alive: every one of them exits inside the scheduler's own exit "
        "(before its run returns/raises) and their exits are in reverse order of their enters; a DoDoer's exit completes "
        "after its children's. Non-trivial: a scheduler stopped with >= 2 direct children alive because of a fault "
        "(exception mid-cycle or in enter/extend, limit, removal, parent closing). Distinct: digest of executed program + faults.")
COMPONENTS = c01.COMPONENTS
ASSUMPTIONS = c01.ASSUMPTIONS
PROBES = ["stop_with_2plus_alive", "exception_mid_cycle_with_live_doers_both_sides", "enter_failure_inside_extend",
          "stop_after_runtime_extend", "dodoer_closed_by_parent_with_children"]
BOUNDS = c01.BOUNDS
TIERS = dict(quick=dict(cases=40000, wall=60.0), thorough=dict(cases=1500000, wall=420.0))


def run_case(tape, tier):
    res = Result()
    feat = c01.feat_for(tier)
    feat["acts"] = dict(cont=10, ret=2, raise_=2, kbint=0, extend=2, remove=2, forever=2)
    feat["limit_prob"] = (2, 3)
    prog = sched.gen_program(tape, feat)
    run = sched.execute(prog, res)
    res.scenario = lambda: dict(program=sched.prog_readable(prog), result=run.result,
                                exits=[e[1] for e in run.trace if e[0] == "exit"], faults=dict(res.faults))
    res.event_digest = sched.trace_digest(run)
    res.scen_digest = digest(dict(p=sched.prog_readable(prog), f=sorted(res.faults.items())))
    sched.check_runaway(run, res)
    res.comparisons = sched_oracles.check_forced_exits(run, res)
    if run.alive_at_end:
        res.violate("forced-exit-alive-at-return",
                    "do() %s with doers still alive (never exited): %s" % (run.result[0], run.alive_at_end))
    started = [n for n, st in run.st.items() if st.entered]
    run.doist_roots_entered = [n for n in started if run.st[n].parent is run.doist]
    c01.probes(run, res)
    # probes specific to C02
    nmax = _max_alive_at_stop(run)
    if nmax >= 2:
        res.probes["stop_with_2plus_alive"] += 1
    if any(e[0] == "extend_return" for e in run.trace) and nmax >= 1:
        res.probes["stop_after_runtime_extend"] += 1
    for e in run.trace:
        if e[0] == "cease" and run.prog["nodes"][e[1]]["kind"] == "dodoer":
            res.probes["dodoer_closed_by_parent_with_children"] += 1
            break
    nfault = sum(res.faults.values())
    res.faultfree = nfault == 0
    res.nontrivial = nmax >= 2
    res.sim_time = run.final["tyme"] - prog["t0"]
    res.steps = len(run.trace)
    return res


def _max_alive_at_stop(run):
    """largest number of direct children alive when some scheduler began its exit"""
    alive = {}
    best = 0
    parent_of = {nid: run.sid(st.parent) for nid, st in run.st.items() if st.parent is not None}
    cur = set()
    for e in run.trace:
        if e[0] == "enter":
            cur.add(e[1])
        elif e[0] == "exit":
            cur.discard(e[1])
        elif e[0] == "exit_begin":
            n = sum(1 for k in cur if parent_of.get(k) == e[1])
            best = max(best, n)
    return best
