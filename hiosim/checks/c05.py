"""
C05  Run termination and done flags are exact.
"""
from fractions import Fraction
from .. import sched
from ..core import Result, digest

PID = "C05"
LEVEL = "exploration"
RULE = ("Each case draws a fault-free doer forest (all kinds, DoDoers of any tock, completion steps, return values "
        "True/False/None, doers that never finish) with scheduler tock from {1,1/4,1/32,1/2,0.1,1/3}, start tyme from "
        "{0,1.5,8,100.1} and, in 2 of 3 cases, a limit k*tock or k*tock +- tock/3 or + tock/2. Oracle (trace based, no model of "
        "due tymes): without a limit hit, do() returns right after the cycle in which the last top-level doer completed "
        "and done is True; with limit L it returns after the first cycle whose end tyme >= start+L (evaluated in float "
        "and exactly; must match one) unless everything completed earlier, done True iff every doer completed; every "
        "doer's done is False after enter-and-forced-exit, the returned value (None counts as False) after finishing on "
        "its own, never True otherwise. Non-trivial: limit not a multiple of tock or start tyme != 0, >= 2 doers, "
        ">= 1 finishing on its own and (with a limit) >= 1 force-closed. Distinct: digest of the program.")
COMPONENTS = dict(real=["hio.base.doing.Doist.do", "DoDoer.do", "Tymer (limit)", "all doer kinds"], stub=["nothing (virtual time)"])
ASSUMPTIONS = ["CPython 3.12: generator.close() returns None, so a force-closed doer keeps done False",
               "limit 0 is documented as 'no limit' and is not generated"]
PROBES = ["empty_doer_set_over_stale_doers", "limit_not_multiple_of_tock", "limit_hit_with_alive", "completed_in_limit_cycle", "returned_none", "returned_false",
          "all_completed_in_enter", "float_and_exact_limit_cycle_differ"]
BOUNDS = dict(quick=dict(nodes=8, depth=3, steps=6), thorough=dict(nodes=14, depth=4, steps=10))
TIERS = dict(quick=dict(cases=40000, wall=60.0), thorough=dict(cases=1200000, wall=420.0))


def feat_for(tier):
    f = sched.default_feat()
    f["prior_run"] = True
    f["acts"] = dict(cont=8, ret=2, raise_=0, kbint=0, extend=0, remove=0, forever=2)
    f["enter"] = dict(ok=14, raise_=0, ret=1)
    f["limit_prob"] = (2, 3)
    f["max_steps"] = 6
    f["allow_empty"] = True
    # more decimal tocks and start tymes: limits whose cycle end tymes land within an ulp of start + limit
    f["T"] = [1.0, 0.25, 0.1, 1.0 / 3.0, 0.3, 0.7, 0.03125, 0.5]
    f["t0"] = [0.0, 1.5, 0.3, 0.2, 100.1, 8.0, 0.9]
    if tier == "thorough":
        f.update(max_nodes=14, max_depth=4, max_steps=10, max_roots=4)
    return f


def run_case(tape, tier):
    res = Result()
    prog = sched.gen_program(tape, feat_for(tier))
    run = sched.execute(prog, res)
    res.scenario = lambda: dict(program=sched.prog_readable(prog), cycles=run.cycles,
                                final={k: (v if k != "node_done" else {str(a): b for a, b in v.items()})
                                       for k, v in run.final.items()})
    res.event_digest = sched.trace_digest(run)
    res.scen_digest = digest(sched.prog_readable(prog))
    if sched.check_runaway(run, res):
        return res
    if run.result != ("return",):
        res.violate("unexpected-raise", "fault-free program raised %r" % (run.result,))
        return res
    T, t0, L = prog["T"], prog["t0"], prog["limit"]
    tr = run.trace
    ends = [e[2] for e in tr if e[0] == "cycle_end"]
    roots = list(prog["roots"])
    # cycle in which each root finished on its own (clean), None if it completed in enter, 'never' if forced
    cyc = None
    fin = {}
    for e in tr:
        if e[0] == "cycle_begin":
            cyc = e[1]
        elif e[0] == "cycle_end":
            cyc = None
        elif e[0] == "clean" and e[1] in roots:
            fin[e[1]] = cyc if cyc is not None else -1
    all_complete = all(r in fin for r in roots)
    c_done = (max(fin.values()) if fin else -1) if all_complete else None     # -1: everything completed in enter (or empty doer set)
    entered_stale = [n for n in prog.get("stale", []) if run.st[n].entered]
    if entered_stale:
        res.violate("stale-doers-ran", "do(doers=[]) entered doers %s that the scheduler held from an earlier use" % entered_stale)
    if "stale" in prog:
        res.probes["empty_doer_set_over_stale_doers"] += 1
    n = run.cycles
    res.comparisons += 1
    # expected number of cycles
    want = set()
    if L is None:
        if not all_complete:
            res.violate("termination-returned-early", "no limit, but do() returned with top-level doers not completed")
        want.add(max(c_done, 0) + 1 if c_done is not None else None)
    else:
        for exact in (False, True):
            if exact:
                k = next((i for i, t in enumerate(ends) if Fraction(t) >= Fraction(t0) + Fraction(L)), None)
            else:
                k = next((i for i, t in enumerate(ends) if t >= t0 + L), None)
            # k is the first cycle (among those that ran) whose end tyme reaches the limit
            if c_done is not None and (k is None or c_done <= k):
                want.add(max(c_done, 0) + 1)
            elif k is not None:
                want.add(k + 1)
            else:
                want.add(None)
        if len(want) > 1:
            res.probes["float_and_exact_limit_cycle_differ"] += 1
    if n not in want:
        res.violate("termination-cycle", "run took %d cycles, expected %s (tock %r start %r limit %r, cycle end tymes %s, "
                    "last completion in cycle %s)" % (n, sorted(w for w in want if w is not None), T, t0, L, ends[-4:], c_done))
    # a limit must not be overrun: after the stop cycle nothing runs (implied by n in want)
    done_expected = all_complete
    if run.final["done"] is not done_expected:
        res.violate("termination-doist-done", "Doist.done is %r, expected %r (all completed: %s)" % (
            run.final["done"], done_expected, all_complete))
    # per-node done flags
    for nid, nd in prog["nodes"].items():
        st = run.st[nid]
        d = run.final["node_done"][nid]
        res.comparisons += 1
        if not st.entered:
            continue
        if nd["kind"] == "dodoer":
            completed = any(e[0] == "clean" and e[1] == nid for e in tr)
            exp = [True] if completed else [False]
        elif st.outcome == "ret":
            steps = nd["steps"]
            if nd["enter"] == "ret":
                v = nd["enter_val"]
            elif st.k - 1 < len(steps) and steps[st.k - 1]["act"] == "ret":
                v = steps[st.k - 1]["val"]
            else:
                v = True
            exp = [v] if v is not None else [False, None]
            if v is None:
                res.probes["returned_none"] += 1
            if v is False:
                res.probes["returned_false"] += 1
        else:
            exp = [False]
        if (nd["kind"] == "dodoer" and nd["always"] and exp == [False] and d is True and st.last_ret):
            res.finding("F31", "node %d: DoDoer(always=True) force-closed while its deeds were empty has done True" % nid)
            continue
        if not any(d is x for x in exp):
            res.violate("done-flag", "node %d (%s) done is %r, expected %s (outcome %s)" % (
                nid, nd["kind"], d, exp, st.outcome or "force-closed"))
    # probes
    if L is not None and (Fraction(L) / Fraction(T)).denominator != 1:
        res.probes["limit_not_multiple_of_tock"] += 1
    forced = any(e[0] == "cease" for e in tr)
    if L is not None and forced:
        res.probes["limit_hit_with_alive"] += 1
        res.faults["limit_expiry_force_close"] += 1
    if L is not None and all_complete and c_done is not None and c_done + 1 == n and ends and ends[-1] >= t0 + L:
        res.probes["completed_in_limit_cycle"] += 1
    if c_done == -1:
        res.probes["all_completed_in_enter"] += 1
    started = [x for x, st in run.st.items() if st.entered]
    self_done = any(run.st[x].outcome == "ret" for x in started)
    res.nontrivial = (len(started) >= 2 and self_done and
                      ((L is not None and (Fraction(L) / Fraction(T)).denominator != 1 and forced) or
                       (L is None and t0 != 0.0)))
    res.sim_time = run.final["tyme"] - t0
    res.steps = len(tr)
    return res
