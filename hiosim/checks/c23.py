"""
C23  Durable queues and sets behave as FIFO models and survive reopen.
"""
import os
import sys
import json
from collections import deque
from .. import store
from ..core import Result, digest, HarnessError
from hio.base.hier import Durq, Dusq, Bag, IceBag, Hold
from hio import HierError

PID = "C23"
ENGINE = "store"
LEVEL = "fault_enumeration"
RULE = ("Each case runs a seeded history of up to 40 (thorough 100) operations on a real Durq and a real Dusq injected through a real "
        "Hold backed by a real Subery (LMDB in a scratch directory): push, pull, extend/update (with duplicates inside the batch), "
        "remove (Dusq), clear, count/len/iteration, over a pool of six registered values (Bag(0..2), IceBag(0..2)) so duplicates are "
        "frequent, and 'resync' (forced re-read of the durable copy into the live container) and 'reopen' (close the store, open a new Subery on the same path, inject fresh containers under the same keys). "
        "Models: deque and insertion-ordered set. Oracle after every operation: return value, list(container) and the durable copy "
        "read straight from the sub-database equal the model; after reopen the fresh containers equal the model. One case in four "
        "is a crash case: the history runs in a forked child that acknowledges each finished operation over a pipe and dies by "
        "os._exit at the N-th executed line (N from the tape, by sys.settrace) of hio's storage modules; the parent reopens and "
        "requires the durable content of both containers to equal the model after the last acknowledged operation or after the "
        "operation in flight. In a third of the in-process cases every injected container is constructed with content of its own: written through where nothing is stored under the key, replaced by the stored content otherwise. Non-trivial: >= 1 reopen or crash with a non-empty container that had seen a duplicate value. "
        "Distinct: digest of the history (+ crash line).")
COMPONENTS = dict(real=["hio.base.hier.durqing.Durq", "hio.base.hier.dusqing.Dusq", "hio.base.hier.holding.Hold", "hio.base.during.Subery/Duror/DomIoSuber/DomIoSetSuber", "LMDB"],
                  stub=["process death (fork + os._exit at a traced line)"])
ASSUMPTIONS = ["crash = process death; the page cache survives, LMDB's own fsync discipline is trusted"]
PROBES = ["store_and_containers_in_one_update", "reopen_nonempty", "crash_inside_operation", "dusq_remove", "dusq_duplicate_push", "extend_with_duplicates", "pull_empty", "clear_nonempty", "preloaded_container_onto_stored_content"]
BOUNDS = dict(quick=dict(ops=40), thorough=dict(ops=100))
TIERS = dict(quick=dict(cases=2400, wall=60.0), thorough=dict(cases=60000, wall=420.0))
SIM_TIME_UNIT = "operations"

POOL = [("Bag", 0), ("Bag", 1), ("Bag", 2), ("IceBag", 0), ("IceBag", 1), ("IceBag", 2)]


def mk(v):
    return (Bag if v[0] == "Bag" else IceBag)(value=v[1])


def key_of(dom):
    return (type(dom).__name__, dom.value)


def gen_history(tape, maxops):
    n = 3 + tape.draw("nops", maxops - 2)
    hist = []
    for _ in range(n):
        which = tape.pick("which", ["q", "s"])
        if which == "q":
            op = ["push", "pull", "extend", "clear", "count", "reopen", "resync", "extend_bad"][tape.weighted("qop", [6, 5, 3, 1, 1, 1, 1, 1])]
        else:
            op = ["push", "pull", "update", "remove", "clear", "reopen", "resync", "update_bad"][tape.weighted("sop", [6, 4, 3, 3, 1, 1, 1, 1])]
        arg = None
        if op in ("push", "remove", "count"):
            arg = POOL[tape.draw("val", len(POOL))]
        elif op in ("extend", "update"):
            arg = [POOL[tape.draw("val", len(POOL))] for _ in range(tape.draw("nvals", 5))]
        elif op in ("extend_bad", "update_bad"):
            # a batch that is rejected half way: valid values, then something that is not a registered value, then more
            arg = [POOL[tape.draw("val", len(POOL))] for _ in range(1 + tape.draw("nvals", 3))]
            arg = (arg, 1 + tape.draw("bad_at", len(arg)))
        hist.append((which, op, arg))
    return hist


class World:
    together = False      # how the Hold gets its store and containers (set per case)
    preload = None        # (queue values, set values) every freshly injected container is constructed with (set per case)

    def __init__(self, path):
        self.path = path
        self.open()

    def open(self):
        self.subery = store.open_subery(self.path)
        self.hold = Hold()
        if World.preload:
            # containers that arrive with content of their own: it is written through if nothing is stored under the key, and
            # gives way to the stored content otherwise
            self.q = Durq([mk(v) for v in World.preload[0]])
            self.s = Dusq([mk(v) for v in World.preload[1]])
        else:
            self.q = Durq()
            self.s = Dusq()
        if World.together:
            # store and containers arrive in one update() call, the containers listed first
            self.hold.update({"queue": self.q, "set": self.s, "_hold_subery": self.subery})
        else:
            self.hold._hold_subery = self.subery
            self.hold["queue"] = self.q
            self.hold["set"] = self.s

    def close(self):
        self.subery.close()

    def durable(self):
        return ([key_of(d) for d in self.subery.drqs.get("queue")], [key_of(d) for d in self.subery.dsqs.get("set")])


def apply_model(mq, ms, which, op, arg):
    """returns expected return value (or a marker)"""
    if op == "resync":
        return True       # forced re-read of the durable copy into the live container: content unchanged
    if op in ("extend_bad", "update_bad"):
        return "REJECTS"  # the whole batch is refused: content unchanged
    if which == "q":
        if op == "push":
            mq.append(arg)
            return True
        if op == "pull":
            return mq.popleft() if mq else None
        if op == "extend":
            mq.extend(arg)
            return bool(arg)
        if op == "clear":
            r = bool(mq)
            mq.clear()
            return r
        if op == "count":
            return list(mq).count(arg)
    else:
        if op == "push":
            ms.setdefault(arg, True)
            return True
        if op == "pull":
            if ms:
                k = next(iter(ms))
                del ms[k]
                return k
            return None
        if op == "update":
            before = len(ms)
            for a in arg:
                ms.setdefault(a, True)
            return len(ms) > before
        if op == "remove":
            if arg in ms:
                del ms[arg]
                return True
            return False
        if op == "clear":
            r = bool(ms)
            ms.clear()
            return r
    return None


def apply_real(w, which, op, arg):
    c = w.q if which == "q" else w.s
    if op == "push":
        return c.push(mk(arg))
    if op == "pull":
        r = c.pull()
        return key_of(r) if r is not None else None
    if op == "extend":
        return c.extend([mk(a) for a in arg])
    if op == "update":
        return c.update([mk(a) for a in arg])
    if op == "clear":
        return c.clear()
    if op == "count":
        return c.count(mk(arg))
    if op == "remove":
        return c.remove(mk(arg))
    if op == "resync":
        return c.sync(force=True)
    if op in ("extend_bad", "update_bad"):
        vals, pos = arg
        batch = [mk(a) for a in vals]
        batch.insert(min(pos, len(batch)), "not-a-registered-value")
        try:
            r = c.extend(batch) if op == "extend_bad" else c.update(batch)
        except HierError:
            return "REJECTS"
        return ("accepted", r)
    raise HarnessError(op)


def _preloaded(mq, ms, res):
    """model of injecting preloaded containers: where nothing is stored the preloaded content becomes the content"""
    if World.preload:
        if not mq:
            mq.extend(World.preload[0])
        else:
            res.probes["preloaded_container_onto_stored_content"] += 1
        if not ms:
            for v in World.preload[1]:
                ms[v] = True
        else:
            res.probes["preloaded_container_onto_stored_content"] += 1


def run_inprocess(hist, res, path):
    w = World(path)
    mq, ms = deque(), {}
    _preloaded(mq, ms, res)
    dup_seen = False
    try:
        for i, (which, op, arg) in enumerate(hist):
            res.steps += 1
            if op == "reopen":
                if mq or ms:
                    res.probes["reopen_nonempty"] += 1
                    if dup_seen:
                        res.nontrivial = True
                w.close()
                w.open()
                _preloaded(mq, ms, res)
            else:
                exp = apply_model(mq, ms, which, op, arg)
                try:
                    got = apply_real(w, which, op, arg)
                except Exception as ex:
                    res.violate("store-op-raised", "op #%d %s.%s(%s) raised %s: %s" % (i, "Durq" if which == "q" else "Dusq", op, arg,
                                                                                      type(ex).__name__, str(ex)[:100]))
                    return
                res.comparisons += 1
                if got != exp and not (op in ("extend",) and not arg and got in (False, None)):
                    res.violate("store-return-value", "op #%d %s.%s(%s) returned %r, model says %r" % (
                        i, "Durq" if which == "q" else "Dusq", op, arg, got, exp))
                    return
                if op in ("push", "extend", "update"):
                    if which == "q" and len(set(mq)) < len(mq):
                        dup_seen = True
                    if which == "s" and op == "push" and exp is True:
                        pass
                if which == "s" and op == "push":
                    res.probes["dusq_duplicate_push"] += int(list(ms).count(arg) == 1 and True)
                if op == "remove":
                    res.probes["dusq_remove"] += 1
                if op == "pull" and exp is None:
                    res.probes["pull_empty"] += 1
                if op == "clear" and exp:
                    res.probes["clear_nonempty"] += 1
                if op in ("extend", "update") and arg and len(set(arg)) < len(arg):
                    res.probes["extend_with_duplicates"] += 1
                    dup_seen = True
            # compare memory + durable with the model
            res.comparisons += 2
            lq = [key_of(d) for d in w.q]
            ls = [key_of(d) for d in w.s]
            dq, ds = w.durable()
            if lq != list(mq) or ls != list(ms):
                res.violate("store-memory-mismatch", "after op #%d %s.%s(%s): containers hold %s / %s, model %s / %s" % (
                    i, which, op, arg, lq, ls, list(mq), list(ms)))
                return
            if dq != list(mq) or ds != list(ms):
                res.violate("store-durable-mismatch", "after op #%d %s.%s(%s): durable copy is %s / %s, model %s / %s" % (
                    i, which, op, arg, dq, ds, list(mq), list(ms)))
                return
            if len(w.q) != len(mq) or len(w.s) != len(ms):
                res.violate("store-len", "len mismatch after op #%d" % i)
                return
    finally:
        try:
            w.close()
        except Exception:
            pass


def run_crash(hist, res, path, crash_line):
    """child executes the history and dies at the crash_line-th traced line; parent checks durable state"""
    hist = [h for h in hist if h[1] != "reopen"]
    # models after each op
    mq, ms = deque(), {}
    states = [([], [])]
    for which, op, arg in hist:
        apply_model(mq, ms, which, op, arg)
        states.append((list(mq), list(ms)))
    rfd, wfd = os.pipe()
    pid = os.fork()
    if pid == 0:
        # ---- child
        try:
            os.close(rfd)
            count = [0]

            def tracer(frame, event, arg_):
                fn = frame.f_code.co_filename
                if not fn.endswith(store.STORAGE_FILES):
                    return None
                if event == "line":
                    count[0] += 1
                    if count[0] >= crash_line:
                        os._exit(17)
                return tracer
            w = World(path)
            os.write(wfd, b"S")
            sys.settrace(tracer)
            for i, (which, op, arg) in enumerate(hist):
                try:
                    apply_real(w, which, op, arg)
                except Exception:
                    sys.settrace(None)
                    os.write(wfd, b"E")
                    os._exit(18)
                sys.settrace(None)
                os.write(wfd, b"A")
                sys.settrace(tracer)
            sys.settrace(None)
            w.close()
            os.write(wfd, b"D")
        finally:
            os._exit(0)
    os.close(wfd)
    data = b""
    while True:
        chunk = os.read(rfd, 4096)
        if not chunk:
            break
        data += chunk
    os.close(rfd)
    _pid, status = os.waitpid(pid, 0)
    code = os.waitstatus_to_exitcode(status)
    acked = data.count(b"A")
    started = data.startswith(b"S")
    if code == 18 or b"E" in data:
        res.violate("store-op-raised", "an operation raised in the crash child after %d acknowledged operations (op %s)" % (
            acked, hist[acked] if acked < len(hist) else None))
        return
    if not started:
        return    # died while opening the store: nothing acknowledged, nothing to demand
    crashed = code == 17
    res.steps += acked
    if crashed:
        res.faults["process_death"] += 1
        res.probes["crash_inside_operation"] += 1
    # ---- parent reopens
    w = World(path)
    try:
        dq, ds = w.durable()
        lq = [key_of(d) for d in w.q]
        ls = [key_of(d) for d in w.s]
    finally:
        w.close()
    res.comparisons += 2
    allowed = [states[acked]]
    if crashed and acked + 1 < len(states):
        allowed.append(states[acked + 1])
    if (dq, ds) not in [(a, b) for a, b in allowed]:
        # per-container: each op touches one container only
        res.violate("store-crash-state", "process died in operation #%d %s (after %d acknowledged): durable content %s / %s is neither the state "
                    "before (%s / %s) nor after it (%s)" % (acked, hist[acked] if acked < len(hist) else None, acked, dq, ds,
                                                            allowed[0][0], allowed[0][1], allowed[-1]))
        return
    if (lq, ls) != (dq, ds):
        res.violate("store-resync-mismatch", "after the crash fresh containers hold %s / %s but the durable copy is %s / %s" % (lq, ls, dq, ds))
        return
    nonempty = bool(dq or ds)
    if crashed and nonempty and (len(set(dq)) < len(dq) or any(len(set(a)) < len(a) for _w, o, a in hist if o in ("extend", "update") and a)):
        res.nontrivial = True


def run_case(tape, tier):
    res = Result()
    maxops = 40 if tier == "quick" else 100
    hist = gen_history(tape, maxops)
    crash = tape.flag("crash", 1, 4)
    crash_line = None
    World.together = tape.flag("hold_update_together", 1, 3)
    if World.together:
        res.probes["store_and_containers_in_one_update"] += 1
    World.preload = None
    if not crash and tape.flag("preloaded_containers", 1, 3):
        World.preload = ([POOL[tape.draw("pre_q", len(POOL))] for _ in range(1 + tape.draw("n_pre_q", 3))],
                         [POOL[tape.draw("pre_s", len(POOL))] for _ in range(1 + tape.draw("n_pre_s", 3))])
    path = store.scratch()
    try:
        if crash:
            crash_line = 1 + tape.draw("crash_line", 60 * max(1, len(hist)))
            run_crash(hist, res, path, crash_line)
            res.faultfree = False
        else:
            run_inprocess(hist, res, path)
    finally:
        store.cleanup(path)
    res.scenario = lambda: dict(history=[[w, o, a] for w, o, a in hist], crash_line=crash_line)
    res.scen_digest = digest(dict(h=[[w, o, a] for w, o, a in hist], c=crash_line))
    res.event_digest = digest(dict(v=res.violations, s=res.scen_digest))
    res.sim_time = float(len(hist))
    return res
